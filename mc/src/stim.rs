//! Stimulus alphabets: reference-encoded frames of every packet kind with boundary field values,
//! non-conformant frames, every single mutation of every seed, short raw prefixes.
#![allow(dead_code)]
use crate::refcodec::{self as rc, AckKind, PVal, Prop, Ver, Will, AP};

fn p16(id: u8, v: u16) -> Prop {
    Prop { id, val: PVal::U16(v) }
}
fn p32(id: u8, v: u32) -> Prop {
    Prop { id, val: PVal::U32(v) }
}

/// Conformant and boundary-valued packets of every kind (as abstract packets).
pub fn seeds(ver: Ver, w: usize) -> Vec<(String, AP)> {
    let max: u32 = if w == 2 { 65535 } else { u32::MAX };
    let v5 = ver == Ver::V5;
    let mut v: Vec<(String, AP)> = vec![];
    let conn = |clean: bool, ka: u16, props: Vec<Prop>, will: Option<Will>| AP::Connect { ver, clean, keep_alive: ka, client_id: b"c".to_vec(), will, user: None, pass: None, props };
    v.push(("CONNECT clean".into(), conn(true, 0, vec![], None)));
    v.push(("CONNECT persistent ka=1".into(), conn(false, 1, if v5 { vec![p32(0x11, 100)] } else { vec![] }, None)));
    v.push(("CONNECT will".into(), conn(true, 0, vec![], Some(Will { topic: b"w".to_vec(), payload: b"x".to_vec(), qos: 1, retain: true, props: vec![] }))));
    if v5 {
        for tam in [0u16, 1, 65535] {
            v.push((format!("CONNECT tam={tam}"), conn(true, 0, vec![p16(0x22, tam)], None)));
        }
        for rm in [1u16, 65535] {
            v.push((format!("CONNECT rm={rm}"), conn(true, 0, vec![p16(0x21, rm)], None)));
        }
        for mps in [1u32, 2, 3, u32::MAX] {
            v.push((format!("CONNECT mps={mps}"), conn(true, 0, vec![p32(0x27, mps)], None)));
        }
    }
    let cack = |sp: bool, code: u8, props: Vec<Prop>| AP::Connack { ver, sp, code, props };
    v.push(("CONNACK sp=0".into(), cack(false, 0, vec![])));
    v.push(("CONNACK sp=1".into(), cack(true, 0, vec![])));
    v.push(("CONNACK refused".into(), cack(false, if v5 { 0x87 } else { 5 }, vec![])));
    if v5 {
        for tam in [0u16, 1, 65535] {
            v.push((format!("CONNACK tam={tam}"), cack(false, 0, vec![p16(0x22, tam)])));
        }
        for rm in [1u16, 65535] {
            v.push((format!("CONNACK rm={rm}"), cack(true, 0, vec![p16(0x21, rm)])));
        }
        for mps in [1u32, 2, 3, u32::MAX] {
            v.push((format!("CONNACK mps={mps}"), cack(false, 0, vec![p32(0x27, mps)])));
        }
        for ska in [0u16, 1] {
            v.push((format!("CONNACK ska={ska}"), cack(false, 0, vec![p16(0x13, ska)])));
        }
        v.push(("CONNACK sei=0".into(), cack(true, 0, vec![p32(0x11, 0)])));
    }
    for q in 0..=2u8 {
        for id in if q == 0 { vec![0u32] } else { vec![1, 2, max] } {
            for dup in [false, true] {
                if q == 0 && dup {
                    continue;
                }
                v.push((format!("PUBLISH q{q} id={id} dup={dup}"), AP::Publish { ver, dup, qos: q, retain: false, topic: b"a".to_vec(), pid: if q > 0 { Some(id) } else { None }, props: vec![], payload: b"p".to_vec() }));
            }
        }
        if v5 {
            for al in [1u16, 2, 65535] {
                v.push((format!("PUBLISH q{q} topic+alias={al}"), AP::Publish { ver, dup: false, qos: q, retain: false, topic: b"a".to_vec(), pid: if q > 0 { Some(1) } else { None }, props: vec![p16(0x23, al)], payload: vec![] }));
                v.push((format!("PUBLISH q{q} empty+alias={al}"), AP::Publish { ver, dup: false, qos: q, retain: false, topic: vec![], pid: if q > 0 { Some(1) } else { None }, props: vec![p16(0x23, al)], payload: vec![] }));
            }
        }
    }
    for kind in [AckKind::Puback, AckKind::Pubrec, AckKind::Pubrel, AckKind::Pubcomp] {
        for id in [1u32, 2, max] {
            v.push((format!("{} id={id}", kind.name()), AP::Ack { ver, kind, pid: id, code: None, props: None }));
            if v5 {
                let fail = *kind.codes().last().unwrap();
                v.push((format!("{} id={id} code=0x{fail:02x}", kind.name()), AP::Ack { ver, kind, pid: id, code: Some(fail), props: None }));
                v.push((format!("{} id={id} code=0 props=[]", kind.name()), AP::Ack { ver, kind, pid: id, code: Some(0), props: Some(vec![]) }));
            }
        }
    }
    for id in [1u32, 2, max] {
        v.push((format!("SUBSCRIBE id={id}"), AP::Subscribe { ver, pid: id, props: vec![], entries: vec![(b"f".to_vec(), 1)] }));
        v.push((format!("SUBACK id={id}"), AP::Suback { ver, pid: id, props: vec![], codes: vec![0] }));
        v.push((format!("UNSUBSCRIBE id={id}"), AP::Unsubscribe { ver, pid: id, props: vec![], filters: vec![b"f".to_vec()] }));
        v.push((format!("UNSUBACK id={id}"), AP::Unsuback { ver, pid: id, props: vec![], codes: if v5 { vec![0] } else { vec![] } }));
    }
    v.push(("SUBACK failure".into(), AP::Suback { ver, pid: 1, props: vec![], codes: vec![0x80] }));
    v.push(("PINGREQ".into(), AP::Pingreq { ver }));
    v.push(("PINGRESP".into(), AP::Pingresp { ver }));
    v.push(("DISCONNECT".into(), AP::Disconnect { ver, code: None, props: None }));
    if v5 {
        v.push(("DISCONNECT code=0x81".into(), AP::Disconnect { ver, code: Some(0x81), props: None }));
        v.push(("DISCONNECT code=0 props".into(), AP::Disconnect { ver, code: Some(0), props: Some(vec![p32(0x11, 5)]) }));
        v.push(("AUTH".into(), AP::Auth { code: None, props: None }));
        v.push(("AUTH continue".into(), AP::Auth { code: Some(0x18), props: Some(vec![Prop { id: 0x15, val: PVal::Str(b"m".to_vec()) }]) }));
    }
    // string contents beyond plain ASCII: shared-subscription forms and multi-byte UTF-8 (legal and illegal
    // ones alike: a peer may send either)
    for (i, f) in crate::genpk::special_filters().into_iter().enumerate() {
        v.push((format!("SUBSCRIBE special filter #{i}"), AP::Subscribe { ver, pid: 1, props: vec![], entries: vec![(f.as_bytes().to_vec(), 0)] }));
        v.push((format!("UNSUBSCRIBE special filter #{i}"), AP::Unsubscribe { ver, pid: 1, props: vec![], filters: vec![f.as_bytes().to_vec()] }));
    }
    // several entries, one of them special: a per-entry rule must hold for every entry, wherever it stands
    for (i, f) in crate::genpk::special_filters().into_iter().enumerate() {
        for (o, first) in [(0, true), (1, false)] {
            let plain = (b"f".to_vec(), 0u8);
            let special = (f.as_bytes().to_vec(), 0u8);
            let entries = if first { vec![special.clone(), plain.clone()] } else { vec![plain.clone(), special.clone()] };
            v.push((format!("SUBSCRIBE two entries, special filter #{i} at {o}"), AP::Subscribe { ver, pid: 1, props: vec![], entries: entries.clone() }));
            v.push((format!("UNSUBSCRIBE two entries, special filter #{i} at {o}"), AP::Unsubscribe { ver, pid: 1, props: vec![], filters: entries.into_iter().map(|e| e.0).collect() }));
        }
    }
    for (i, n) in crate::genpk::special_names().into_iter().enumerate() {
        v.push((format!("PUBLISH special topic #{i}"), AP::Publish { ver, dup: false, qos: 0, retain: false, topic: n.as_bytes().to_vec(), pid: None, props: vec![], payload: vec![] }));
    }
    if v5 {
        // a property that may appear once, repeated 256 / 257 times (an occurrence counter of 8 bits wraps there)
        let once: Vec<Prop> = vec![
            Prop { id: 0x01, val: PVal::U8(1) },
            Prop { id: 0x02, val: PVal::U32(5) },
            Prop { id: 0x23, val: PVal::U16(1) },
            Prop { id: 0x08, val: PVal::Str(b"r".to_vec()) },
            Prop { id: 0x09, val: PVal::Bin(b"c".to_vec()) },
            Prop { id: 0x03, val: PVal::Str(b"t".to_vec()) },
        ];
        for p in &once {
            for n in [256usize, 257] {
                v.push((format!("PUBLISH property 0x{:02x} x{n}", p.id), AP::Publish { ver, dup: false, qos: 0, retain: false, topic: b"a".to_vec(), pid: None, props: vec![p.clone(); n], payload: vec![] }));
            }
        }
        v.push(("CONNECT session-expiry x256".into(), conn(true, 0, vec![p32(0x11, 1); 256], None)));
        v.push(("CONNACK receive-maximum x256".into(), cack(false, 0, vec![p16(0x21, 1); 256])));
        v.push(("SUBSCRIBE subscription-identifier x256".into(), AP::Subscribe { ver, pid: 1, props: vec![Prop { id: 0x0B, val: PVal::Vbi(1) }; 256], entries: vec![(b"f".to_vec(), 0)] }));
        v.push(("DISCONNECT session-expiry x256".into(), AP::Disconnect { ver, code: Some(0), props: Some(vec![p32(0x11, 1); 256]) }));
        v.push(("AUTH method x256".into(), AP::Auth { code: Some(0x18), props: Some(vec![Prop { id: 0x15, val: PVal::Str(b"m".to_vec()) }; 256]) }));
        v.push(("PUBACK reason-string x256".into(), AP::Ack { ver, kind: AckKind::Puback, pid: 1, code: Some(0), props: Some(vec![Prop { id: 0x1F, val: PVal::Str(b"r".to_vec()) }; 256]) }));
    }
    v
}

/// Frames that are well-framed but violate the specification in one field.
pub fn nonconformant(ver: Ver, w: usize) -> Vec<(String, Vec<u8>)> {
    let v5 = ver == Ver::V5;
    let mut v: Vec<(String, Vec<u8>)> = vec![];
    let mut add = |n: String, ap: AP| v.push((n, rc::encode(&ap, w)));
    for q in 1..=2u8 {
        add(format!("PUBLISH q{q} id=0"), AP::Publish { ver, dup: false, qos: q, retain: false, topic: b"a".to_vec(), pid: Some(0), props: vec![], payload: vec![] });
    }
    for kind in [AckKind::Puback, AckKind::Pubrec, AckKind::Pubrel, AckKind::Pubcomp] {
        add(format!("{} id=0", kind.name()), AP::Ack { ver, kind, pid: 0, code: None, props: None });
        if v5 {
            add(format!("{} undefined code", kind.name()), AP::Ack { ver, kind, pid: 1, code: Some(0x03), props: None });
        }
    }
    add("SUBSCRIBE id=0".into(), AP::Subscribe { ver, pid: 0, props: vec![], entries: vec![(b"f".to_vec(), 0)] });
    add("SUBACK id=0".into(), AP::Suback { ver, pid: 0, props: vec![], codes: vec![0] });
    add("UNSUBSCRIBE id=0".into(), AP::Unsubscribe { ver, pid: 0, props: vec![], filters: vec![b"f".to_vec()] });
    add("UNSUBACK id=0".into(), AP::Unsuback { ver, pid: 0, props: vec![], codes: if v5 { vec![0] } else { vec![] } });
    add("SUBSCRIBE no entries".into(), AP::Subscribe { ver, pid: 1, props: vec![], entries: vec![] });
    add("SUBSCRIBE qos3".into(), AP::Subscribe { ver, pid: 1, props: vec![], entries: vec![(b"f".to_vec(), 3)] });
    add("PUBLISH wildcard topic".into(), AP::Publish { ver, dup: false, qos: 0, retain: false, topic: b"#".to_vec(), pid: None, props: vec![], payload: vec![] });
    add("PUBLISH empty topic".into(), AP::Publish { ver, dup: false, qos: 0, retain: false, topic: vec![], pid: None, props: vec![], payload: vec![] });
    add("PUBLISH bad utf8 topic".into(), AP::Publish { ver, dup: false, qos: 0, retain: false, topic: vec![0xC0, 0x80], pid: None, props: vec![], payload: vec![] });
    add("CONNACK undefined code".into(), AP::Connack { ver, sp: false, code: 0x03 + if v5 { 0 } else { 4 }, props: vec![] });
    add("CONNECT empty client id persistent".into(), AP::Connect { ver, clean: false, keep_alive: 0, client_id: vec![], will: None, user: None, pass: None, props: vec![] });
    if v5 {
        add("PUBLISH alias=0".into(), AP::Publish { ver, dup: false, qos: 0, retain: false, topic: b"a".to_vec(), pid: None, props: vec![p16(0x23, 0)], payload: vec![] });
        add("PUBLISH q2 id=1 alias=0".into(), AP::Publish { ver, dup: false, qos: 2, retain: false, topic: vec![], pid: Some(1), props: vec![p16(0x23, 0)], payload: vec![] });
        add("CONNECT rm=0".into(), AP::Connect { ver, clean: true, keep_alive: 0, client_id: b"c".to_vec(), will: None, user: None, pass: None, props: vec![p16(0x21, 0)] });
        add("CONNECT mps=0".into(), AP::Connect { ver, clean: true, keep_alive: 0, client_id: b"c".to_vec(), will: None, user: None, pass: None, props: vec![p32(0x27, 0)] });
        add("CONNACK rm=0".into(), AP::Connack { ver, sp: false, code: 0, props: vec![p16(0x21, 0)] });
        add("CONNACK mps=0".into(), AP::Connack { ver, sp: false, code: 0, props: vec![p32(0x27, 0)] });
        add("CONNACK tam twice".into(), AP::Connack { ver, sp: false, code: 0, props: vec![p16(0x22, 1), p16(0x22, 2)] });
        add("PUBLISH property not allowed".into(), AP::Publish { ver, dup: false, qos: 0, retain: false, topic: b"a".to_vec(), pid: None, props: vec![p16(0x21, 1)], payload: vec![] });
        add("DISCONNECT undefined code".into(), AP::Disconnect { ver, code: Some(0x03), props: None });
    }
    // protocol level mismatch / unknown level
    let mut c = rc::encode(&AP::Connect { ver, clean: true, keep_alive: 0, client_id: b"c".to_vec(), will: None, user: None, pass: None, props: vec![] }, w);
    c[8] = 3;
    v.push(("CONNECT level=3".into(), c.clone()));
    c[8] = 6;
    v.push(("CONNECT level=6".into(), c));
    // non-minimal remaining length / 5-byte remaining length / reserved types / zero-length bodies
    v.push(("PINGREQ rl=80 00".into(), vec![0xC0, 0x80, 0x00]));
    v.push(("PUBACK rl 5 bytes".into(), vec![0x40, 0x80, 0x80, 0x80, 0x80, 0x00]));
    v.push(("PUBLISH rl 5 bytes".into(), vec![0x30, 0xFF, 0xFF, 0xFF, 0xFF, 0x7F]));
    v.push(("TYPE0".into(), vec![0x00, 0x00]));
    v.push(("TYPE15 rl0".into(), vec![0xF0, 0x00]));
    for t in 1..=15u8 {
        v.push((format!("type {t} empty body"), vec![t << 4, 0x00]));
    }
    v.push(("PUBLISH q1 empty body".into(), vec![0x32, 0x00]));
    v.push(("PUBLISH q3".into(), vec![0x36, 0x05, 0x00, 0x01, b'a', 0x00, 0x01]));
    v.push(("PUBREL flags 0".into(), vec![0x60, 0x02, 0x00, 0x01]));
    v
}

/// Byte-level mutation menu. `level` 0: bit 0 and bit 7 flips, truncation, deletion; 1: all.
pub fn mutations(name: &str, b: &[u8], level: u8) -> Vec<(String, Vec<u8>)> {
    let mut out: Vec<(String, Vec<u8>)> = vec![];
    let n = b.len();
    for i in 0..n {
        let bits: &[u8] = if level == 0 { &[0, 7] } else { &[0, 1, 2, 3, 4, 5, 6, 7] };
        for &bit in bits {
            let mut m = b.to_vec();
            m[i] ^= 1 << bit;
            out.push((format!("{name} ~flip[{i}].{bit}"), m));
        }
        let mut m = b.to_vec();
        m.remove(i);
        out.push((format!("{name} ~del[{i}]"), m));
        if i > 0 {
            out.push((format!("{name} ~trunc[{i}]"), b[..i].to_vec()));
        }
        if level > 0 {
            let mut m = b.to_vec();
            m.insert(i, b[i]);
            out.push((format!("{name} ~dup[{i}]"), m));
            for ins in [0x00u8, 0x80, 0xFF] {
                let mut m = b.to_vec();
                m.insert(i, ins);
                out.push((format!("{name} ~ins[{i}]={ins:02x}"), m));
            }
            for d in [1u8, 255, 128] {
                let mut m = b.to_vec();
                m[i] = m[i].wrapping_add(d);
                out.push((format!("{name} ~add[{i}]+{d}"), m));
            }
        }
    }
    // body truncated to k bytes with the Remaining Length rewritten (a complete, shorter frame)
    if n >= 2 && b[1] < 0x80 && n == 2 + b[1] as usize {
        for k in 0..(n - 2) {
            let mut m = vec![b[0], k as u8];
            m.extend_from_slice(&b[2..2 + k]);
            out.push((format!("{name} ~body[..{k}]"), m));
        }
        // body extended by one byte
        let mut m = vec![b[0], b[1] + 1];
        m.extend_from_slice(&b[2..]);
        m.push(0);
        out.push((format!("{name} ~body+1"), m));
    }
    // non-minimal re-encoding of the Remaining Length (when it is a single byte)
    if n >= 2 && b[1] < 0x80 {
        let mut m = vec![b[0], b[1] | 0x80, 0x00];
        m.extend_from_slice(&b[2..]);
        out.push((format!("{name} ~rl-nonminimal"), m));
    }
    out
}

/// every 1-byte string and a reduced set of 2-byte strings as stream prefix
pub fn prefixes(level: u8) -> Vec<(String, Vec<u8>)> {
    let mut out = vec![];
    for a in 0..=255u8 {
        if level > 0 || a & 0x0F == 0 || a & 0x0F == 2 {
            out.push((format!("raw {a:02x}"), vec![a]));
        }
    }
    let seconds: &[u8] = &[0x00, 0x01, 0x02, 0x7F, 0x80, 0xFF];
    for a in (0..=255u8).filter(|a| level > 0 || a & 0x0F == 0 || *a == 0x32 || *a == 0x62 || *a == 0x82) {
        for &b in seconds {
            out.push((format!("raw {a:02x}{b:02x}"), vec![a, b]));
        }
    }
    out
}

/// Full stimulus list for one protocol version. `level` 0 = quick, 1 = thorough.
pub fn stimuli(ver: Ver, w: usize, level: u8) -> Vec<(String, Vec<u8>)> {
    let mut out: Vec<(String, Vec<u8>)> = vec![];
    let sd = seeds(ver, w);
    for (n, ap) in &sd {
        out.push((n.clone(), rc::encode(ap, w)));
    }
    out.extend(nonconformant(ver, w));
    // the other version's CONNECT (version mismatch on a fixed-version server)
    let other = if ver == Ver::V4 { Ver::V5 } else { Ver::V4 };
    out.push(("CONNECT other version".into(), rc::encode(&AP::Connect { ver: other, clean: true, keep_alive: 0, client_id: b"c".to_vec(), will: None, user: None, pass: None, props: vec![] }, w)));
    for (n, ap) in &sd {
        let b = rc::encode(ap, w);
        if level == 0 && n.contains(" special ") {
            // special string contents: the frame itself is the stimulus in the quick tier
            continue;
        }
        if level == 0 && b.len() > 12 {
            // long seeds: only the length-consistent body truncations in the quick tier
            out.extend(mutations(n, &b, 0).into_iter().filter(|m| m.0.contains("~body")));
            continue;
        }
        out.extend(mutations(n, &b, level));
    }
    out.extend(prefixes(level));
    // two frames in one buffer
    let ping = rc::encode(&AP::Pingreq { ver }, w);
    let pubq0 = rc::encode(&AP::Publish { ver, dup: false, qos: 0, retain: false, topic: b"a".to_vec(), pid: None, props: vec![], payload: vec![] }, w);
    let mut two = pubq0.clone();
    two.extend_from_slice(&ping);
    out.push(("PUBLISH q0 + PINGREQ in one buffer".into(), two));
    // dedupe by bytes
    let mut seen = std::collections::HashSet::new();
    out.retain(|(_, b)| seen.insert(b.clone()));
    out
}
