//! Role-erased wrapper around the real `GenericConnection` plus canonical events.
#![allow(dead_code)]
use crate::bridge::{self, Pid};
use crate::refcodec::{Ver, AP};
use mqtt_protocol_core::mqtt;
use mqtt_protocol_core::mqtt::connection::core::verif_hooks::VerifState;
use mqtt_protocol_core::mqtt::connection::{GenericEvent, TimerKind};
use mqtt_protocol_core::mqtt::packet::{GenericPacket, GenericPacketTrait, GenericStorePacket};
use mqtt_protocol_core::mqtt::result_code::MqttError;
use mqtt_protocol_core::mqtt::role;
use mqtt_protocol_core::mqtt::GenericConnection;

#[derive(Clone, Copy, Debug, PartialEq, Eq, Hash, PartialOrd, Ord)]
pub enum RoleK {
    Client,
    Server,
    Any,
}

#[derive(Clone, Copy, Debug, PartialEq, Eq, Hash, PartialOrd, Ord)]
pub enum Tk {
    PingreqSend,
    PingreqRecv,
    PingrespRecv,
}
impl Tk {
    pub const ALL: [Tk; 3] = [Tk::PingreqSend, Tk::PingreqRecv, Tk::PingrespRecv];
    pub fn idx(self) -> usize {
        self as usize
    }
    pub fn lib(self) -> TimerKind {
        match self {
            Tk::PingreqSend => TimerKind::PingreqSend,
            Tk::PingreqRecv => TimerKind::PingreqRecv,
            Tk::PingrespRecv => TimerKind::PingrespRecv,
        }
    }
    fn from_lib(k: TimerKind) -> Tk {
        match k {
            TimerKind::PingreqSend => Tk::PingreqSend,
            TimerKind::PingreqRecv => Tk::PingreqRecv,
            TimerKind::PingrespRecv => Tk::PingrespRecv,
        }
    }
}

/// Canonical event: packets are represented by their accessor view (`AP`), their real bytes and
/// the size the library reports.
#[derive(Clone, Debug, PartialEq, Eq, Hash)]
pub enum Ev {
    Recv { ap: AP, extracted: bool },
    Send { ap: AP, bytes: Vec<u8>, size: usize, rel: Option<u32> },
    Released(u32),
    TimerReset(Tk, u64),
    TimerCancel(Tk),
    Error(MqttError),
    Close,
}

impl Ev {
    pub fn short(&self) -> String {
        match self {
            Ev::Recv { ap, extracted } => format!("NotifyPacketReceived({}{})", ap_short(ap), if *extracted { " [topic extracted]" } else { "" }),
            Ev::Send { ap, size, rel, .. } => format!("RequestSendPacket({} size={}{})", ap_short(ap), size, rel.map(|r| format!(" rel_if_err={r}")).unwrap_or_default()),
            Ev::Released(i) => format!("NotifyPacketIdReleased({i})"),
            Ev::TimerReset(k, ms) => format!("RequestTimerReset({k:?},{ms})"),
            Ev::TimerCancel(k) => format!("RequestTimerCancel({k:?})"),
            Ev::Error(e) => format!("NotifyError({e:?})"),
            Ev::Close => "RequestClose".into(),
        }
    }
    pub fn is_send_of(&self, ty: u8) -> bool {
        matches!(self, Ev::Send { ap, .. } if ap.type_nibble() == ty)
    }
    pub fn is_recv_of(&self, ty: u8) -> bool {
        matches!(self, Ev::Recv { ap, .. } if ap.type_nibble() == ty)
    }
}

pub fn ap_short(ap: &AP) -> String {
    let s = |b: &Vec<u8>| String::from_utf8_lossy(b).to_string();
    match ap {
        AP::Connect { ver, clean, keep_alive, props, .. } => format!("CONNECT v{} clean={} ka={} props={}", ver.level(), clean, keep_alive, props_short(props)),
        AP::Connack { sp, code, props, .. } => format!("CONNACK sp={} code=0x{:02x} props={}", sp, code, props_short(props)),
        AP::Publish { dup, qos, retain, topic, pid, props, payload, .. } => format!(
            "PUBLISH q{} id={:?} dup={} retain={} topic={:?} props={} payload={:?}",
            qos, pid, dup, retain, s(topic), props_short(props), crate::util::hex_trunc(payload, 8)
        ),
        AP::Ack { kind, pid, code, .. } => format!("{} id={} code={:?}", kind.name(), pid, code),
        AP::Subscribe { pid, .. } => format!("SUBSCRIBE id={pid}"),
        AP::Suback { pid, .. } => format!("SUBACK id={pid}"),
        AP::Unsubscribe { pid, .. } => format!("UNSUBSCRIBE id={pid}"),
        AP::Unsuback { pid, .. } => format!("UNSUBACK id={pid}"),
        AP::Pingreq { .. } => "PINGREQ".into(),
        AP::Pingresp { .. } => "PINGRESP".into(),
        AP::Disconnect { code, .. } => format!("DISCONNECT code={code:?}"),
        AP::Auth { code, .. } => format!("AUTH code={code:?}"),
    }
}
pub fn props_short(ps: &[crate::refcodec::Prop]) -> String {
    let v: Vec<String> = ps
        .iter()
        .map(|p| {
            let val = match &p.val {
                crate::refcodec::PVal::U8(v) => v.to_string(),
                crate::refcodec::PVal::U16(v) => v.to_string(),
                crate::refcodec::PVal::U32(v) => v.to_string(),
                crate::refcodec::PVal::Vbi(v) => v.to_string(),
                crate::refcodec::PVal::Str(v) | crate::refcodec::PVal::Bin(v) => format!("{:?}", String::from_utf8_lossy(v)),
                crate::refcodec::PVal::Pair(a, b) => format!("{:?}={:?}", String::from_utf8_lossy(a), String::from_utf8_lossy(b)),
            };
            format!("{}:{}", crate::refcodec::prop_name(p.id), val)
        })
        .collect();
    format!("[{}]", v.join(","))
}

/// Convert and canonicalise one returned event list: each maximal run of consecutive
/// `NotifyPacketIdReleased` events is sorted (their relative order comes from hash iteration of
/// per-instance randomly seeded sets and no property speaks about it).
pub fn canon<P: Pid>(evs: Vec<GenericEvent<P>>) -> Vec<Ev> {
    let mut out: Vec<Ev> = Vec::with_capacity(evs.len());
    for e in evs {
        out.push(match e {
            GenericEvent::NotifyPacketReceived(p) => {
                let extracted = matches!(&p, GenericPacket::V5_0Publish(x) if x.topic_name_extracted());
                Ev::Recv { ap: bridge::read(&p), extracted }
            }
            GenericEvent::RequestSendPacket { packet, release_packet_id_if_send_error } => Ev::Send {
                ap: bridge::read(&packet),
                bytes: packet.to_continuous_buffer(),
                size: packet.size(),
                rel: release_packet_id_if_send_error.map(|x| x.to_u32_()),
            },
            GenericEvent::NotifyPacketIdReleased(i) => Ev::Released(i.to_u32_()),
            GenericEvent::RequestTimerReset { kind, duration_ms } => Ev::TimerReset(Tk::from_lib(kind), duration_ms),
            GenericEvent::RequestTimerCancel(k) => Ev::TimerCancel(Tk::from_lib(k)),
            GenericEvent::NotifyError(e) => Ev::Error(e),
            GenericEvent::RequestClose => Ev::Close,
        });
    }
    let mut i = 0;
    while i < out.len() {
        if matches!(out[i], Ev::Released(_)) {
            let mut j = i;
            while j < out.len() && matches!(out[j], Ev::Released(_)) {
                j += 1;
            }
            out[i..j].sort_by_key(|e| if let Ev::Released(x) = e { *x } else { 0 });
            i = j;
        } else {
            i += 1;
        }
    }
    out
}

#[derive(Clone)]
pub enum ConnBox<P: Pid> {
    C(GenericConnection<role::Client, P>),
    S(GenericConnection<role::Server, P>),
    A(GenericConnection<role::Any, P>),
}

macro_rules! on {
    ($s:expr, $c:ident => $e:expr) => {
        match $s {
            ConnBox::C($c) => $e,
            ConnBox::S($c) => $e,
            ConnBox::A($c) => $e,
        }
    };
}

impl<P: Pid> ConnBox<P> {
    pub fn new(role: RoleK, ver: Option<Ver>) -> Self {
        let v = bridge::lib_version(ver);
        match role {
            RoleK::Client => ConnBox::C(GenericConnection::new(v)),
            RoleK::Server => ConnBox::S(GenericConnection::new(v)),
            RoleK::Any => ConnBox::A(GenericConnection::new(v)),
        }
    }
    pub fn role(&self) -> RoleK {
        match self {
            ConnBox::C(_) => RoleK::Client,
            ConnBox::S(_) => RoleK::Server,
            ConnBox::A(_) => RoleK::Any,
        }
    }
    pub fn send(&mut self, p: GenericPacket<P>) -> Vec<Ev> {
        canon(on!(self, c => c.send(p)))
    }
    /// one `recv` call; returns events and the number of bytes the cursor advanced
    pub fn recv_once(&mut self, data: &[u8]) -> (Vec<Ev>, usize) {
        let mut cur = mqtt::common::Cursor::new(data);
        let evs = on!(self, c => c.recv(&mut cur));
        (canon(evs), cur.position() as usize)
    }
    /// Feed a buffer the way an application does: loop `recv` while the cursor has bytes, stop
    /// feeding at a close request. Returns one event list per `recv` call and bytes consumed.
    pub fn recv_all(&mut self, data: &[u8]) -> (Vec<Vec<Ev>>, usize) {
        let mut cur = mqtt::common::Cursor::new(data);
        let mut lists = vec![];
        let mut guard = 0usize;
        while (cur.position() as usize) < data.len() {
            let before = cur.position();
            let evs = canon(on!(self, c => c.recv(&mut cur)));
            let closed = evs.iter().any(|e| matches!(e, Ev::Close));
            lists.push(evs);
            if closed {
                break;
            }
            if cur.position() == before {
                guard += 1;
                if guard > 2 {
                    panic!("recv made no progress on a non-empty buffer");
                }
            }
        }
        (lists, cur.position() as usize)
    }
    pub fn notify_timer_fired(&mut self, k: Tk) -> Vec<Ev> {
        canon(on!(self, c => c.notify_timer_fired(k.lib())))
    }
    pub fn notify_closed(&mut self) -> Vec<Ev> {
        canon(on!(self, c => c.notify_closed()))
    }
    pub fn set_pingreq_send_interval(&mut self, d: Option<u64>) -> Vec<Ev> {
        canon(on!(self, c => c.set_pingreq_send_interval(d)))
    }
    pub fn vacancy(&self) -> Option<u16> {
        on!(self, c => c.get_receive_maximum_vacancy_for_send())
    }
    pub fn set_offline_publish(&mut self, b: bool) {
        on!(self, c => c.set_offline_publish(b))
    }
    pub fn set_auto_pub_response(&mut self, b: bool) {
        on!(self, c => c.set_auto_pub_response(b))
    }
    pub fn set_auto_ping_response(&mut self, b: bool) {
        on!(self, c => c.set_auto_ping_response(b))
    }
    pub fn set_auto_map(&mut self, b: bool) {
        on!(self, c => c.set_auto_map_topic_alias_send(b))
    }
    pub fn set_auto_replace(&mut self, b: bool) {
        on!(self, c => c.set_auto_replace_topic_alias_send(b))
    }
    pub fn set_pingresp_recv_timeout(&mut self, ms: u64) {
        on!(self, c => c.set_pingresp_recv_timeout(ms))
    }
    pub fn acquire(&mut self) -> Result<u32, MqttError> {
        on!(self, c => c.acquire_packet_id()).map(|x| x.to_u32_())
    }
    pub fn register(&mut self, v: u32) -> Result<(), MqttError> {
        let id = P::from_u32(v).expect("id width");
        on!(self, c => c.register_packet_id(id))
    }
    pub fn release(&mut self, v: u32) -> Vec<Ev> {
        let id = P::from_u32(v).expect("id width");
        canon(on!(self, c => c.release_packet_id(id)))
    }
    pub fn handled(&self) -> Vec<u32> {
        let mut v: Vec<u32> = on!(self, c => c.get_qos2_publish_handled()).iter().map(|x| x.to_u32_()).collect();
        v.sort_unstable();
        v
    }
    pub fn restore_handled(&mut self, ids: &[u32]) {
        let mut set = mqtt::common::HashSet::default();
        for i in ids {
            set.insert(P::from_u32(*i).expect("id width"));
        }
        on!(self, c => c.restore_qos2_publish_handled(set))
    }
    pub fn stored(&self) -> Vec<GenericStorePacket<P>> {
        on!(self, c => c.get_stored_packets())
    }
    pub fn restore_packets(&mut self, v: Vec<GenericStorePacket<P>>) {
        on!(self, c => c.restore_packets(v))
    }
    pub fn erase_stored_publish(&mut self, v: u32) -> Vec<Ev> {
        let id = P::from_u32(v).expect("id width");
        canon(on!(self, c => c.erase_stored_publish(id)))
    }
    /// `regulate_for_store` on a v5 PUBLISH given as an abstract packet; Ok(view of the result) / Err
    pub fn regulate_for_store(&self, ap: &AP) -> Result<AP, MqttError> {
        let p = bridge::build::<P>(ap).ok().expect("publish for regulate_for_store");
        let GenericPacket::V5_0Publish(p) = p else { panic!("regulate_for_store needs a v5 PUBLISH") };
        let r = on!(self, c => c.regulate_for_store(p))?;
        Ok(bridge::read::<P>(&GenericPacket::V5_0Publish(r)))
    }
    pub fn version(&self) -> mqtt::Version {
        on!(self, c => c.get_protocol_version())
    }
    pub fn snap(&self) -> VerifState {
        let mut s = on!(self, c => c.verif_state());
        // bookkeeping that is dead once the attempt is established (it is overwritten at the next close)
        if s.established {
            s.need_store_before_connect = false;
        }
        s
    }
}

/// Stored packet as (AP via accessors, bytes)
pub fn store_view<P: Pid>(s: &[GenericStorePacket<P>]) -> Vec<(AP, Vec<u8>)> {
    s.iter()
        .map(|p| {
            let g: GenericPacket<P> = p.clone().into();
            (bridge::read(&g), g.to_continuous_buffer())
        })
        .collect()
}

/// In-use packet ids according to the snapshot's free intervals (only sensible for small sets:
/// complement is computed against the given universe bound).
pub fn in_use_ids(free: &[(u64, u64)], max: u64) -> Vec<u64> {
    let mut out = vec![];
    let mut next = 1u64;
    for (l, h) in free {
        while next < *l {
            out.push(next);
            next += 1;
            if out.len() > 4096 {
                return out;
            }
        }
        next = h + 1;
    }
    if next <= max && next != 0 {
        // ids above the last free interval
        let mut v = next;
        while v <= max {
            out.push(v);
            if v == max || out.len() > 4096 {
                break;
            }
            v += 1;
        }
    }
    out
}
