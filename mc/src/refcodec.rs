//! Independent reference codec for MQTT v3.1.1 and v5.0, written from the OASIS specifications.
//! Shares no code and no constants with the library under test. It can also *encode*
//! non-conformant frames (id 0, alias 0, non-minimal variable byte integers, wrong flags) for the
//! adversarial alphabets, and its decoder is strict (spec-conformant input only).
#![allow(dead_code)]

#[derive(Clone, Copy, Debug, PartialEq, Eq, Hash, PartialOrd, Ord)]
pub enum Ver {
    V4,
    V5,
}
impl Ver {
    pub fn level(self) -> u8 {
        match self {
            Ver::V4 => 4,
            Ver::V5 => 5,
        }
    }
}

#[derive(Clone, Debug, PartialEq, Eq, Hash)]
pub enum PVal {
    U8(u8),
    U16(u16),
    U32(u32),
    Vbi(u32),
    Str(Vec<u8>),
    Bin(Vec<u8>),
    Pair(Vec<u8>, Vec<u8>),
}

#[derive(Clone, Debug, PartialEq, Eq, Hash)]
pub struct Prop {
    pub id: u8,
    pub val: PVal,
}

#[derive(Clone, Copy, Debug, PartialEq, Eq, Hash)]
pub enum PTy {
    U8,
    U16,
    U32,
    Vbi,
    Str,
    Bin,
    Pair,
}

/// MQTT v5.0 §2.2.2.2 Table 2-4: identifier, name, type.
pub const PROP_TABLE: [(u8, &str, PTy); 27] = [
    (0x01, "PayloadFormatIndicator", PTy::U8),
    (0x02, "MessageExpiryInterval", PTy::U32),
    (0x03, "ContentType", PTy::Str),
    (0x08, "ResponseTopic", PTy::Str),
    (0x09, "CorrelationData", PTy::Bin),
    (0x0B, "SubscriptionIdentifier", PTy::Vbi),
    (0x11, "SessionExpiryInterval", PTy::U32),
    (0x12, "AssignedClientIdentifier", PTy::Str),
    (0x13, "ServerKeepAlive", PTy::U16),
    (0x15, "AuthenticationMethod", PTy::Str),
    (0x16, "AuthenticationData", PTy::Bin),
    (0x17, "RequestProblemInformation", PTy::U8),
    (0x18, "WillDelayInterval", PTy::U32),
    (0x19, "RequestResponseInformation", PTy::U8),
    (0x1A, "ResponseInformation", PTy::Str),
    (0x1C, "ServerReference", PTy::Str),
    (0x1F, "ReasonString", PTy::Str),
    (0x21, "ReceiveMaximum", PTy::U16),
    (0x22, "TopicAliasMaximum", PTy::U16),
    (0x23, "TopicAlias", PTy::U16),
    (0x24, "MaximumQoS", PTy::U8),
    (0x25, "RetainAvailable", PTy::U8),
    (0x26, "UserProperty", PTy::Pair),
    (0x27, "MaximumPacketSize", PTy::U32),
    (0x28, "WildcardSubscriptionAvailable", PTy::U8),
    (0x29, "SubscriptionIdentifierAvailable", PTy::U8),
    (0x2A, "SharedSubscriptionAvailable", PTy::U8),
];

pub fn prop_type(id: u8) -> Option<PTy> {
    PROP_TABLE.iter().find(|e| e.0 == id).map(|e| e.2)
}
pub fn prop_name(id: u8) -> &'static str {
    PROP_TABLE.iter().find(|e| e.0 == id).map(|e| e.1).unwrap_or("?")
}

/// The 14 property-carrying locations of MQTT v5.0.
#[derive(Clone, Copy, Debug, PartialEq, Eq, Hash, PartialOrd, Ord)]
pub enum Loc {
    Connect,
    Will,
    Connack,
    Publish,
    Puback,
    Pubrec,
    Pubrel,
    Pubcomp,
    Subscribe,
    Suback,
    Unsubscribe,
    Unsuback,
    Disconnect,
    Auth,
}
pub const ALL_LOCS: [Loc; 14] = [
    Loc::Connect,
    Loc::Will,
    Loc::Connack,
    Loc::Publish,
    Loc::Puback,
    Loc::Pubrec,
    Loc::Pubrel,
    Loc::Pubcomp,
    Loc::Subscribe,
    Loc::Suback,
    Loc::Unsubscribe,
    Loc::Unsuback,
    Loc::Disconnect,
    Loc::Auth,
];

/// MQTT v5.0 Table 2-4, column "Packet / Will Properties".
pub fn prop_allowed(id: u8, loc: Loc) -> bool {
    use Loc::*;
    let l: &[Loc] = match id {
        0x01 => &[Publish, Will],
        0x02 => &[Publish, Will],
        0x03 => &[Publish, Will],
        0x08 => &[Publish, Will],
        0x09 => &[Publish, Will],
        0x0B => &[Publish, Subscribe],
        0x11 => &[Connect, Connack, Disconnect],
        0x12 => &[Connack],
        0x13 => &[Connack],
        0x15 => &[Connect, Connack, Auth],
        0x16 => &[Connect, Connack, Auth],
        0x17 => &[Connect],
        0x18 => &[Will],
        0x19 => &[Connect],
        0x1A => &[Connack],
        0x1C => &[Connack, Disconnect],
        0x1F => &[Connack, Puback, Pubrec, Pubrel, Pubcomp, Suback, Unsuback, Disconnect, Auth],
        0x21 => &[Connect, Connack],
        0x22 => &[Connect, Connack],
        0x23 => &[Publish],
        0x24 => &[Connack],
        0x25 => &[Connack],
        0x26 => &[
            Connect, Connack, Publish, Will, Puback, Pubrec, Pubrel, Pubcomp, Subscribe, Suback,
            Unsubscribe, Unsuback, Disconnect, Auth,
        ],
        0x27 => &[Connect, Connack],
        0x28 => &[Connack],
        0x29 => &[Connack],
        0x2A => &[Connack],
        _ => &[],
    };
    l.contains(&loc)
}

/// May the property appear more than once in this location? (User Property everywhere;
/// Subscription Identifier in PUBLISH.)
pub fn prop_may_repeat(id: u8, loc: Loc) -> bool {
    id == 0x26 || (id == 0x0B && loc == Loc::Publish)
}

/// Is the *value* legal for this property (spec: zero forbidden for Receive Maximum, Topic Alias,
/// Maximum Packet Size, Subscription Identifier; byte flags 0/1 only; Maximum QoS 0/1).
pub fn prop_value_legal(p: &Prop) -> bool {
    match (p.id, &p.val) {
        (0x21, PVal::U16(v)) => *v != 0,
        (0x23, PVal::U16(v)) => *v != 0,
        (0x27, PVal::U32(v)) => *v != 0,
        (0x0B, PVal::Vbi(v)) => *v != 0 && *v <= 268_435_455,
        (0x01, PVal::U8(v))
        | (0x17, PVal::U8(v))
        | (0x19, PVal::U8(v))
        | (0x24, PVal::U8(v))
        | (0x25, PVal::U8(v))
        | (0x28, PVal::U8(v))
        | (0x29, PVal::U8(v))
        | (0x2A, PVal::U8(v)) => *v <= 1,
        (_, PVal::Str(s)) => utf8_ok(s),
        (_, PVal::Pair(a, b)) => utf8_ok(a) && utf8_ok(b),
        _ => true,
    }
}

/// MQTT UTF-8 string rules (§1.5.4): well-formed UTF-8, no U+0000, length <= 65535.
pub fn utf8_ok(s: &[u8]) -> bool {
    s.len() <= 65535 && std::str::from_utf8(s).map(|t| !t.contains('\0')).unwrap_or(false)
}

// ------------------------------------------------------------------------------------------
// reason codes (spec tables per packet)

pub fn connack_codes_v5() -> &'static [u8] {
    &[
        0x00, 0x80, 0x81, 0x82, 0x83, 0x84, 0x85, 0x86, 0x87, 0x88, 0x89, 0x8A, 0x8C, 0x90, 0x95, 0x97,
        0x99, 0x9A, 0x9B, 0x9C, 0x9D, 0x9F,
    ]
}
pub fn connack_codes_v4() -> &'static [u8] {
    &[0, 1, 2, 3, 4, 5]
}
pub fn puback_codes() -> &'static [u8] {
    &[0x00, 0x10, 0x80, 0x83, 0x87, 0x90, 0x91, 0x97, 0x99]
}
pub fn pubrec_codes() -> &'static [u8] {
    puback_codes()
}
pub fn pubrel_codes() -> &'static [u8] {
    &[0x00, 0x92]
}
pub fn pubcomp_codes() -> &'static [u8] {
    &[0x00, 0x92]
}
pub fn suback_codes_v5() -> &'static [u8] {
    &[0x00, 0x01, 0x02, 0x80, 0x83, 0x87, 0x8F, 0x91, 0x97, 0x9E, 0xA1, 0xA2]
}
pub fn suback_codes_v4() -> &'static [u8] {
    &[0x00, 0x01, 0x02, 0x80]
}
pub fn unsuback_codes() -> &'static [u8] {
    &[0x00, 0x11, 0x80, 0x83, 0x87, 0x8F, 0x91]
}
pub fn disconnect_codes() -> &'static [u8] {
    &[
        0x00, 0x04, 0x80, 0x81, 0x82, 0x83, 0x87, 0x89, 0x8B, 0x8D, 0x8E, 0x8F, 0x90, 0x93, 0x94, 0x95,
        0x96, 0x97, 0x98, 0x99, 0x9A, 0x9B, 0x9C, 0x9D, 0x9E, 0x9F, 0xA0, 0xA1, 0xA2,
    ]
}
pub fn auth_codes() -> &'static [u8] {
    &[0x00, 0x18, 0x19]
}

// ------------------------------------------------------------------------------------------
// abstract packets

#[derive(Clone, Debug, PartialEq, Eq, Hash)]
pub struct Will {
    pub topic: Vec<u8>,
    pub payload: Vec<u8>,
    pub qos: u8,
    pub retain: bool,
    pub props: Vec<Prop>,
}

#[derive(Clone, Copy, Debug, PartialEq, Eq, Hash)]
pub enum AckKind {
    Puback,
    Pubrec,
    Pubrel,
    Pubcomp,
}
impl AckKind {
    pub fn type_nibble(self) -> u8 {
        match self {
            AckKind::Puback => 4,
            AckKind::Pubrec => 5,
            AckKind::Pubrel => 6,
            AckKind::Pubcomp => 7,
        }
    }
    pub fn flags(self) -> u8 {
        if self == AckKind::Pubrel {
            2
        } else {
            0
        }
    }
    pub fn loc(self) -> Loc {
        match self {
            AckKind::Puback => Loc::Puback,
            AckKind::Pubrec => Loc::Pubrec,
            AckKind::Pubrel => Loc::Pubrel,
            AckKind::Pubcomp => Loc::Pubcomp,
        }
    }
    pub fn codes(self) -> &'static [u8] {
        match self {
            AckKind::Puback => puback_codes(),
            AckKind::Pubrec => pubrec_codes(),
            AckKind::Pubrel => pubrel_codes(),
            AckKind::Pubcomp => pubcomp_codes(),
        }
    }
    pub fn name(self) -> &'static str {
        match self {
            AckKind::Puback => "PUBACK",
            AckKind::Pubrec => "PUBREC",
            AckKind::Pubrel => "PUBREL",
            AckKind::Pubcomp => "PUBCOMP",
        }
    }
}

/// An abstract MQTT control packet: field values only. Packet identifiers are `u32` so that both
/// identifier widths can be expressed; the width is a parameter of `encode` / `decode`.
#[derive(Clone, Debug, PartialEq, Eq, Hash)]
pub enum AP {
    Connect {
        ver: Ver,
        clean: bool,
        keep_alive: u16,
        client_id: Vec<u8>,
        will: Option<Will>,
        user: Option<Vec<u8>>,
        pass: Option<Vec<u8>>,
        props: Vec<Prop>,
    },
    Connack {
        ver: Ver,
        sp: bool,
        code: u8,
        props: Vec<Prop>,
    },
    Publish {
        ver: Ver,
        dup: bool,
        qos: u8,
        retain: bool,
        topic: Vec<u8>,
        pid: Option<u32>,
        props: Vec<Prop>,
        payload: Vec<u8>,
    },
    /// PUBACK / PUBREC / PUBREL / PUBCOMP. v5: `code` None => 2-byte form; `props` None => no
    /// property length field.
    Ack {
        ver: Ver,
        kind: AckKind,
        pid: u32,
        code: Option<u8>,
        props: Option<Vec<Prop>>,
    },
    Subscribe {
        ver: Ver,
        pid: u32,
        props: Vec<Prop>,
        /// (topic filter, options byte)
        entries: Vec<(Vec<u8>, u8)>,
    },
    Suback {
        ver: Ver,
        pid: u32,
        props: Vec<Prop>,
        codes: Vec<u8>,
    },
    Unsubscribe {
        ver: Ver,
        pid: u32,
        props: Vec<Prop>,
        filters: Vec<Vec<u8>>,
    },
    Unsuback {
        ver: Ver,
        pid: u32,
        props: Vec<Prop>,
        codes: Vec<u8>,
    },
    Pingreq {
        ver: Ver,
    },
    Pingresp {
        ver: Ver,
    },
    Disconnect {
        ver: Ver,
        code: Option<u8>,
        props: Option<Vec<Prop>>,
    },
    Auth {
        code: Option<u8>,
        props: Option<Vec<Prop>>,
    },
}

impl AP {
    pub fn ver(&self) -> Ver {
        match self {
            AP::Connect { ver, .. }
            | AP::Connack { ver, .. }
            | AP::Publish { ver, .. }
            | AP::Ack { ver, .. }
            | AP::Subscribe { ver, .. }
            | AP::Suback { ver, .. }
            | AP::Unsubscribe { ver, .. }
            | AP::Unsuback { ver, .. }
            | AP::Pingreq { ver }
            | AP::Pingresp { ver }
            | AP::Disconnect { ver, .. } => *ver,
            AP::Auth { .. } => Ver::V5,
        }
    }
    /// control packet type (high nibble of the fixed header)
    pub fn type_nibble(&self) -> u8 {
        match self {
            AP::Connect { .. } => 1,
            AP::Connack { .. } => 2,
            AP::Publish { .. } => 3,
            AP::Ack { kind, .. } => kind.type_nibble(),
            AP::Subscribe { .. } => 8,
            AP::Suback { .. } => 9,
            AP::Unsubscribe { .. } => 10,
            AP::Unsuback { .. } => 11,
            AP::Pingreq { .. } => 12,
            AP::Pingresp { .. } => 13,
            AP::Disconnect { .. } => 14,
            AP::Auth { .. } => 15,
        }
    }
    pub fn kind_name(&self) -> &'static str {
        match self {
            AP::Connect { .. } => "CONNECT",
            AP::Connack { .. } => "CONNACK",
            AP::Publish { .. } => "PUBLISH",
            AP::Ack { kind, .. } => kind.name(),
            AP::Subscribe { .. } => "SUBSCRIBE",
            AP::Suback { .. } => "SUBACK",
            AP::Unsubscribe { .. } => "UNSUBSCRIBE",
            AP::Unsuback { .. } => "UNSUBACK",
            AP::Pingreq { .. } => "PINGREQ",
            AP::Pingresp { .. } => "PINGRESP",
            AP::Disconnect { .. } => "DISCONNECT",
            AP::Auth { .. } => "AUTH",
        }
    }
    pub fn pid(&self) -> Option<u32> {
        match self {
            AP::Publish { pid, .. } => *pid,
            AP::Ack { pid, .. }
            | AP::Subscribe { pid, .. }
            | AP::Suback { pid, .. }
            | AP::Unsubscribe { pid, .. }
            | AP::Unsuback { pid, .. } => Some(*pid),
            _ => None,
        }
    }
}

// ------------------------------------------------------------------------------------------
// primitive encoders

pub fn enc_vbi(mut v: u32) -> Vec<u8> {
    let mut out = vec![];
    loop {
        let mut b = (v % 128) as u8;
        v /= 128;
        if v > 0 {
            b |= 0x80;
        }
        out.push(b);
        if v == 0 {
            break;
        }
    }
    out
}

/// Non-minimal encoding of `v` using exactly `n` bytes (n in 1..=4, n >= minimal length).
pub fn enc_vbi_padded(v: u32, n: usize) -> Vec<u8> {
    let mut out = vec![];
    let mut x = v;
    for i in 0..n {
        let mut b = (x % 128) as u8;
        x /= 128;
        if i + 1 < n {
            b |= 0x80;
        }
        out.push(b);
    }
    out
}

#[derive(Debug, Clone, PartialEq, Eq)]
pub enum VbiErr {
    Incomplete,
    TooLong,
    NonMinimal,
}

/// Strict spec decoder (§1.5.5): at most four bytes, minimal encoding required.
pub fn dec_vbi(b: &[u8]) -> Result<(u32, usize), VbiErr> {
    let mut mult: u32 = 1;
    let mut val: u32 = 0;
    for i in 0..4 {
        let Some(&x) = b.get(i) else { return Err(VbiErr::Incomplete) };
        val += (x & 0x7F) as u32 * mult;
        if x & 0x80 == 0 {
            if i > 0 && x == 0 {
                return Err(VbiErr::NonMinimal);
            }
            return Ok((val, i + 1));
        }
        mult *= 128;
    }
    Err(VbiErr::TooLong)
}

/// Lenient decoder: accepts non-minimal encodings up to four bytes.
pub fn dec_vbi_lenient(b: &[u8]) -> Result<(u32, usize), VbiErr> {
    let mut mult: u32 = 1;
    let mut val: u32 = 0;
    for i in 0..4 {
        let Some(&x) = b.get(i) else { return Err(VbiErr::Incomplete) };
        val += (x & 0x7F) as u32 * mult;
        if x & 0x80 == 0 {
            return Ok((val, i + 1));
        }
        mult *= 128;
    }
    Err(VbiErr::TooLong)
}

fn put_str(out: &mut Vec<u8>, s: &[u8]) {
    out.extend_from_slice(&(s.len() as u16).to_be_bytes());
    out.extend_from_slice(s);
}

fn put_pid(out: &mut Vec<u8>, pid: u32, w: usize) {
    if w == 2 {
        out.extend_from_slice(&(pid as u16).to_be_bytes());
    } else {
        out.extend_from_slice(&pid.to_be_bytes());
    }
}

pub fn enc_prop(p: &Prop) -> Vec<u8> {
    let mut out = vec![p.id];
    match &p.val {
        PVal::U8(v) => out.push(*v),
        PVal::U16(v) => out.extend_from_slice(&v.to_be_bytes()),
        PVal::U32(v) => out.extend_from_slice(&v.to_be_bytes()),
        PVal::Vbi(v) => out.extend_from_slice(&enc_vbi(*v)),
        PVal::Str(s) | PVal::Bin(s) => put_str(&mut out, s),
        PVal::Pair(a, b) => {
            put_str(&mut out, a);
            put_str(&mut out, b);
        }
    }
    out
}

pub fn enc_props(ps: &[Prop]) -> Vec<u8> {
    let mut body = vec![];
    for p in ps {
        body.extend_from_slice(&enc_prop(p));
    }
    let mut out = enc_vbi(body.len() as u32);
    out.extend_from_slice(&body);
    out
}

/// fixed header + remaining length + body
pub fn frame(type_nibble: u8, flags: u8, body: &[u8]) -> Vec<u8> {
    let mut out = vec![(type_nibble << 4) | (flags & 0x0F)];
    out.extend_from_slice(&enc_vbi(body.len() as u32));
    out.extend_from_slice(body);
    out
}

/// Variable header + payload (everything after the Remaining Length field).
pub fn encode_body(p: &AP, w: usize) -> Vec<u8> {
    let mut b = vec![];
    match p {
        AP::Connect { ver, clean, keep_alive, client_id, will, user, pass, props } => {
            put_str(&mut b, b"MQTT");
            b.push(ver.level());
            let mut flags = 0u8;
            if *clean {
                flags |= 0x02;
            }
            if let Some(wl) = will {
                flags |= 0x04;
                flags |= (wl.qos & 3) << 3;
                if wl.retain {
                    flags |= 0x20;
                }
            }
            if pass.is_some() {
                flags |= 0x40;
            }
            if user.is_some() {
                flags |= 0x80;
            }
            b.push(flags);
            b.extend_from_slice(&keep_alive.to_be_bytes());
            if *ver == Ver::V5 {
                b.extend_from_slice(&enc_props(props));
            }
            put_str(&mut b, client_id);
            if let Some(wl) = will {
                if *ver == Ver::V5 {
                    b.extend_from_slice(&enc_props(&wl.props));
                }
                put_str(&mut b, &wl.topic);
                put_str(&mut b, &wl.payload);
            }
            if let Some(u) = user {
                put_str(&mut b, u);
            }
            if let Some(pw) = pass {
                put_str(&mut b, pw);
            }
        }
        AP::Connack { ver, sp, code, props } => {
            b.push(if *sp { 1 } else { 0 });
            b.push(*code);
            if *ver == Ver::V5 {
                b.extend_from_slice(&enc_props(props));
            }
        }
        AP::Publish { ver, qos, topic, pid, props, payload, .. } => {
            put_str(&mut b, topic);
            if *qos > 0 {
                put_pid(&mut b, pid.unwrap_or(0), w);
            }
            if *ver == Ver::V5 {
                b.extend_from_slice(&enc_props(props));
            }
            b.extend_from_slice(payload);
        }
        AP::Ack { ver, pid, code, props, .. } => {
            put_pid(&mut b, *pid, w);
            if *ver == Ver::V5 {
                if let Some(c) = code {
                    b.push(*c);
                    if let Some(ps) = props {
                        b.extend_from_slice(&enc_props(ps));
                    }
                }
            }
        }
        AP::Subscribe { ver, pid, props, entries } => {
            put_pid(&mut b, *pid, w);
            if *ver == Ver::V5 {
                b.extend_from_slice(&enc_props(props));
            }
            for (f, o) in entries {
                put_str(&mut b, f);
                b.push(*o);
            }
        }
        AP::Suback { ver, pid, props, codes } => {
            put_pid(&mut b, *pid, w);
            if *ver == Ver::V5 {
                b.extend_from_slice(&enc_props(props));
            }
            b.extend_from_slice(codes);
        }
        AP::Unsubscribe { ver, pid, props, filters } => {
            put_pid(&mut b, *pid, w);
            if *ver == Ver::V5 {
                b.extend_from_slice(&enc_props(props));
            }
            for f in filters {
                put_str(&mut b, f);
            }
        }
        AP::Unsuback { ver, pid, props, codes } => {
            put_pid(&mut b, *pid, w);
            if *ver == Ver::V5 {
                b.extend_from_slice(&enc_props(props));
                b.extend_from_slice(codes);
            }
        }
        AP::Pingreq { .. } | AP::Pingresp { .. } => {}
        AP::Disconnect { ver, code, props } => {
            if *ver == Ver::V5 {
                if let Some(c) = code {
                    b.push(*c);
                    if let Some(ps) = props {
                        b.extend_from_slice(&enc_props(ps));
                    }
                }
            }
        }
        AP::Auth { code, props } => {
            // §3.15.2.1: Reason Code and Property Length can only be omitted together
            if let Some(c) = code {
                b.push(*c);
                b.extend_from_slice(&enc_props(props.as_deref().unwrap_or(&[])));
            }
        }
    }
    b
}

pub fn flags_of(p: &AP) -> u8 {
    match p {
        AP::Publish { dup, qos, retain, .. } => {
            (if *dup { 8 } else { 0 }) | ((qos & 3) << 1) | (if *retain { 1 } else { 0 })
        }
        AP::Ack { kind, .. } => kind.flags(),
        AP::Subscribe { .. } | AP::Unsubscribe { .. } => 2,
        _ => 0,
    }
}

/// Whole control packet as prescribed by the specification.
pub fn encode(p: &AP, w: usize) -> Vec<u8> {
    frame(p.type_nibble(), flags_of(p), &encode_body(p, w))
}

// ------------------------------------------------------------------------------------------
// strict decoder

pub struct Rd<'a> {
    pub b: &'a [u8],
    pub i: usize,
}
impl<'a> Rd<'a> {
    pub fn new(b: &'a [u8]) -> Self {
        Rd { b, i: 0 }
    }
    pub fn left(&self) -> usize {
        self.b.len() - self.i
    }
    pub fn u8(&mut self) -> Result<u8, String> {
        let v = *self.b.get(self.i).ok_or("short: u8")?;
        self.i += 1;
        Ok(v)
    }
    pub fn u16(&mut self) -> Result<u16, String> {
        if self.left() < 2 {
            return Err("short: u16".into());
        }
        let v = u16::from_be_bytes([self.b[self.i], self.b[self.i + 1]]);
        self.i += 2;
        Ok(v)
    }
    pub fn u32(&mut self) -> Result<u32, String> {
        if self.left() < 4 {
            return Err("short: u32".into());
        }
        let v = u32::from_be_bytes([self.b[self.i], self.b[self.i + 1], self.b[self.i + 2], self.b[self.i + 3]]);
        self.i += 4;
        Ok(v)
    }
    pub fn pid(&mut self, w: usize) -> Result<u32, String> {
        if w == 2 {
            Ok(self.u16()? as u32)
        } else {
            self.u32()
        }
    }
    pub fn bin(&mut self) -> Result<Vec<u8>, String> {
        let n = self.u16()? as usize;
        if self.left() < n {
            return Err("short: binary".into());
        }
        let v = self.b[self.i..self.i + n].to_vec();
        self.i += n;
        Ok(v)
    }
    pub fn string(&mut self) -> Result<Vec<u8>, String> {
        let v = self.bin()?;
        if !utf8_ok(&v) {
            return Err("ill-formed UTF-8 string".into());
        }
        Ok(v)
    }
    pub fn vbi(&mut self) -> Result<u32, String> {
        let (v, n) = dec_vbi(&self.b[self.i..]).map_err(|e| format!("vbi: {e:?}"))?;
        self.i += n;
        Ok(v)
    }
    pub fn rest(&mut self) -> Vec<u8> {
        let v = self.b[self.i..].to_vec();
        self.i = self.b.len();
        v
    }
}

pub fn dec_props(r: &mut Rd, loc: Loc) -> Result<Vec<Prop>, String> {
    let n = r.vbi()? as usize;
    if r.left() < n {
        return Err("property length exceeds packet".into());
    }
    let end = r.i + n;
    let mut sub = Rd { b: &r.b[..end], i: r.i };
    let mut out: Vec<Prop> = vec![];
    while sub.i < end {
        let id = sub.u8()?;
        let ty = prop_type(id).ok_or(format!("unknown property id {id}"))?;
        let val = match ty {
            PTy::U8 => PVal::U8(sub.u8()?),
            PTy::U16 => PVal::U16(sub.u16()?),
            PTy::U32 => PVal::U32(sub.u32()?),
            PTy::Vbi => PVal::Vbi(sub.vbi()?),
            PTy::Str => PVal::Str(sub.string()?),
            PTy::Bin => PVal::Bin(sub.bin()?),
            PTy::Pair => {
                let a = sub.string()?;
                let b = sub.string()?;
                PVal::Pair(a, b)
            }
        };
        let p = Prop { id, val };
        if !prop_allowed(id, loc) {
            return Err(format!("property {} not allowed in {:?}", prop_name(id), loc));
        }
        if !prop_value_legal(&p) {
            return Err(format!("illegal value for {}", prop_name(id)));
        }
        if !prop_may_repeat(id, loc) && out.iter().any(|q| q.id == id) {
            return Err(format!("property {} repeated in {:?}", prop_name(id), loc));
        }
        out.push(p);
    }
    r.i = end;
    Ok(out)
}

/// Strict spec decoder of one control packet given type nibble, flags and body.
pub fn decode_body(ver: Ver, ty: u8, flags: u8, body: &[u8], w: usize) -> Result<AP, String> {
    let mut r = Rd::new(body);
    let v5 = ver == Ver::V5;
    let p = match ty {
        1 => {
            if flags != 0 {
                return Err("CONNECT flags".into());
            }
            let name = r.bin()?;
            if name != b"MQTT" {
                return Err("protocol name".into());
            }
            let lvl = r.u8()?;
            if lvl != ver.level() {
                return Err("protocol level".into());
            }
            let cf = r.u8()?;
            if cf & 1 != 0 {
                return Err("reserved connect flag".into());
            }
            let keep_alive = r.u16()?;
            let props = if v5 { dec_props(&mut r, Loc::Connect)? } else { vec![] };
            let client_id = r.string()?;
            let will_flag = cf & 4 != 0;
            let wq = (cf >> 3) & 3;
            let wr = cf & 0x20 != 0;
            if !will_flag && (wq != 0 || wr) {
                return Err("will qos/retain without will flag".into());
            }
            if wq == 3 {
                return Err("will qos 3".into());
            }
            let will = if will_flag {
                let wp = if v5 { dec_props(&mut r, Loc::Will)? } else { vec![] };
                let topic = r.string()?;
                let payload = r.bin()?;
                if topic.is_empty() || !topic_name_legal(&topic) {
                    return Err("will topic".into());
                }
                Some(Will { topic, payload, qos: wq, retain: wr, props: wp })
            } else {
                None
            };
            let user = if cf & 0x80 != 0 { Some(r.string()?) } else { None };
            let pass = if cf & 0x40 != 0 { Some(r.bin()?) } else { None };
            if !v5 && pass.is_some() && user.is_none() {
                return Err("v3.1.1 password without user name".into());
            }
            // a zero-length Client Identifier needs Clean Session 1 in v3.1.1 [MQTT-3.1.3-7] (a server matter in
            // v5.0, where the server may assign one)
            if !v5 && client_id.is_empty() && cf & 2 == 0 {
                return Err("v3.1.1 empty client id without clean session".into());
            }
            AP::Connect { ver, clean: cf & 2 != 0, keep_alive, client_id, will, user, pass, props }
        }
        2 => {
            if flags != 0 {
                return Err("CONNACK flags".into());
            }
            let af = r.u8()?;
            if af > 1 {
                return Err("connack ack flags".into());
            }
            let code = r.u8()?;
            let ok = if v5 { connack_codes_v5().contains(&code) } else { connack_codes_v4().contains(&code) };
            if !ok {
                return Err("connack code".into());
            }
            let props = if v5 { dec_props(&mut r, Loc::Connack)? } else { vec![] };
            AP::Connack { ver, sp: af == 1, code, props }
        }
        3 => {
            let dup = flags & 8 != 0;
            let qos = (flags >> 1) & 3;
            let retain = flags & 1 != 0;
            if qos == 3 {
                return Err("publish qos 3".into());
            }
            let topic = r.string()?;
            let pid = if qos > 0 { Some(r.pid(w)?) } else { None };
            if pid == Some(0) {
                return Err("packet id 0".into());
            }
            let props = if v5 { dec_props(&mut r, Loc::Publish)? } else { vec![] };
            let payload = r.rest();
            if !topic_name_legal(&topic) {
                return Err("topic name".into());
            }
            // an empty Topic Name needs a Topic Alias (v5.0 only)
            if topic.is_empty() && !(v5 && props.iter().any(|p| p.id == 0x23)) {
                return Err("empty topic name".into());
            }
            // DUP must be 0 for QoS 0 [MQTT-3.3.1-2]
            if qos == 0 && dup {
                return Err("DUP with QoS 0".into());
            }
            AP::Publish { ver, dup, qos, retain, topic, pid, props, payload }
        }
        4..=7 => {
            let kind = match ty {
                4 => AckKind::Puback,
                5 => AckKind::Pubrec,
                6 => AckKind::Pubrel,
                _ => AckKind::Pubcomp,
            };
            if flags != kind.flags() {
                return Err("ack flags".into());
            }
            let pid = r.pid(w)?;
            if pid == 0 {
                return Err("packet id 0".into());
            }
            let (code, props) = if v5 && r.left() > 0 {
                let c = r.u8()?;
                if !kind.codes().contains(&c) {
                    return Err("ack reason code".into());
                }
                let ps = if r.left() > 0 { Some(dec_props(&mut r, kind.loc())?) } else { None };
                (Some(c), ps)
            } else {
                (None, None)
            };
            AP::Ack { ver, kind, pid, code, props }
        }
        8 => {
            if flags != 2 {
                return Err("SUBSCRIBE flags".into());
            }
            let pid = r.pid(w)?;
            if pid == 0 {
                return Err("packet id 0".into());
            }
            let props = if v5 { dec_props(&mut r, Loc::Subscribe)? } else { vec![] };
            let mut entries = vec![];
            while r.left() > 0 {
                let f = r.string()?;
                let o = r.u8()?;
                if !filter_legal(ver, &f) {
                    return Err("topic filter".into());
                }
                // Subscription Options: QoS <= 2; v3.1.1: upper six bits reserved; v5.0: bits 6-7 reserved,
                // Retain Handling <= 2, No Local on a shared subscription is a protocol error
                if o & 0x03 == 3 || (!v5 && o & 0xFC != 0) || (v5 && (o & 0xC0 != 0 || (o >> 4) & 0x03 == 3)) {
                    return Err("subscription options".into());
                }
                if v5 && o & 0x04 != 0 && f.starts_with(b"$share/") {
                    return Err("No Local on a shared subscription".into());
                }
                entries.push((f, o));
            }
            if entries.is_empty() {
                return Err("no subscription".into());
            }
            AP::Subscribe { ver, pid, props, entries }
        }
        9 => {
            if flags != 0 {
                return Err("SUBACK flags".into());
            }
            let pid = r.pid(w)?;
            if pid == 0 {
                return Err("packet id 0".into());
            }
            let props = if v5 { dec_props(&mut r, Loc::Suback)? } else { vec![] };
            let codes = r.rest();
            if codes.is_empty() {
                return Err("no suback code".into());
            }
            // v3.1.1: granted QoS 0 / 1 / 2 or 0x80 [MQTT-3.9.3-2]; v5.0: the SUBACK reason codes of table 3.9.3
            let legal: &[u8] = if v5 { &[0x00, 0x01, 0x02, 0x80, 0x83, 0x87, 0x8F, 0x91, 0x97, 0x9E, 0xA1, 0xA2] } else { &[0x00, 0x01, 0x02, 0x80] };
            if codes.iter().any(|c| !legal.contains(c)) {
                return Err("suback code".into());
            }
            AP::Suback { ver, pid, props, codes }
        }
        10 => {
            if flags != 2 {
                return Err("UNSUBSCRIBE flags".into());
            }
            let pid = r.pid(w)?;
            if pid == 0 {
                return Err("packet id 0".into());
            }
            let props = if v5 { dec_props(&mut r, Loc::Unsubscribe)? } else { vec![] };
            let mut filters = vec![];
            while r.left() > 0 {
                let f = r.string()?;
                if !filter_legal(ver, &f) {
                    return Err("topic filter".into());
                }
                filters.push(f);
            }
            if filters.is_empty() {
                return Err("no filter".into());
            }
            AP::Unsubscribe { ver, pid, props, filters }
        }
        11 => {
            if flags != 0 {
                return Err("UNSUBACK flags".into());
            }
            let pid = r.pid(w)?;
            if pid == 0 {
                return Err("packet id 0".into());
            }
            let props = if v5 { dec_props(&mut r, Loc::Unsuback)? } else { vec![] };
            let codes = if v5 { r.rest() } else { vec![] };
            if codes.iter().any(|c| ![0x00u8, 0x11, 0x80, 0x83, 0x87, 0x8F, 0x91].contains(c)) {
                return Err("unsuback code".into());
            }
            AP::Unsuback { ver, pid, props, codes }
        }
        12 => {
            if flags != 0 {
                return Err("flags".into());
            }
            AP::Pingreq { ver }
        }
        13 => {
            if flags != 0 {
                return Err("flags".into());
            }
            AP::Pingresp { ver }
        }
        14 => {
            if flags != 0 {
                return Err("flags".into());
            }
            let (code, props) = if v5 && r.left() > 0 {
                let c = r.u8()?;
                if !disconnect_codes().contains(&c) {
                    return Err("disconnect reason code".into());
                }
                let ps = if r.left() > 0 { Some(dec_props(&mut r, Loc::Disconnect)?) } else { None };
                (Some(c), ps)
            } else {
                (None, None)
            };
            AP::Disconnect { ver, code, props }
        }
        15 => {
            if !v5 || flags != 0 {
                return Err("AUTH".into());
            }
            let (code, props) = if r.left() > 0 {
                let c = r.u8()?;
                if !auth_codes().contains(&c) {
                    return Err("auth reason code".into());
                }
                // lenient: a Reason Code without Property Length is accepted like in DISCONNECT
                let ps = if r.left() > 0 { Some(dec_props(&mut r, Loc::Auth)?) } else { None };
                // Authentication Method is mandatory unless the packet is the bare "Success" form; Authentication
                // Data needs the method next to it (3.15.2.2.2 / 3.15.2.2.3)
                let has = |id: u8| ps.as_ref().map(|v: &Vec<Prop>| v.iter().any(|p| p.id == id)).unwrap_or(false);
                if (c != 0 && !has(0x15)) || (has(0x16) && !has(0x15)) {
                    return Err("AUTH without Authentication Method".into());
                }
                (Some(c), ps)
            } else {
                (None, None)
            };
            AP::Auth { code, props }
        }
        _ => return Err("reserved packet type".into()),
    };
    if r.left() != 0 {
        return Err(format!("{} trailing bytes", r.left()));
    }
    Ok(p)
}

/// Topic Filter rules [MQTT-4.7.1-2/3, 4.7.3-1, 4.8.2-1/2]: non-empty, no U+0000, '#' only as the last level,
/// '+' only as a whole level; v5.0 shared subscriptions: `$share/<name>/<filter>` with a non-empty name that
/// contains none of '/', '+', '#', and a non-empty filter behind it
pub fn filter_legal(ver: Ver, f: &[u8]) -> bool {
    let Ok(s) = std::str::from_utf8(f) else { return false };
    if s.is_empty() || s.contains('\u{0}') {
        return false;
    }
    let mut rest = s;
    if ver == Ver::V5 && s.starts_with("$share/") {
        let after = &s[7..];
        let Some(pos) = after.find('/') else { return false };
        let name = &after[..pos];
        if name.is_empty() || name.contains('+') || name.contains('#') {
            return false;
        }
        rest = &after[pos + 1..];
        if rest.is_empty() {
            return false;
        }
    }
    let levels: Vec<&str> = rest.split('/').collect();
    for (i, l) in levels.iter().enumerate() {
        if l.contains('#') && (*l != "#" || i + 1 != levels.len()) {
            return false;
        }
        if l.contains('+') && *l != "+" {
            return false;
        }
    }
    true
}

/// Topic Name rules [MQTT-4.7.1-1, 4.7.3-1]: no wildcard characters, no U+0000 (emptiness is judged by the caller)
pub fn topic_name_legal(t: &[u8]) -> bool {
    let Ok(s) = std::str::from_utf8(t) else { return false };
    !s.contains('#') && !s.contains('+') && !s.contains('\u{0}')
}

/// Split a stream into frames the way the specification prescribes (fixed header, Remaining Length
/// of at most four bytes, body). Returns (type nibble, flags, body, total length) or an error.
#[derive(Debug, Clone, PartialEq, Eq)]
pub enum Framed {
    Frame { ty: u8, flags: u8, body: Vec<u8>, used: usize, minimal_rl: bool },
    /// Remaining Length field longer than four bytes; `used` bytes belong to the broken header
    BadLength { used: usize },
    Incomplete,
}

pub fn frame_one(b: &[u8]) -> Framed {
    if b.is_empty() {
        return Framed::Incomplete;
    }
    let ty = b[0] >> 4;
    let flags = b[0] & 15;
    match dec_vbi_lenient(&b[1..]) {
        Ok((rl, n)) => {
            let minimal = dec_vbi(&b[1..]).is_ok();
            let start = 1 + n;
            if b.len() < start + rl as usize {
                return Framed::Incomplete;
            }
            Framed::Frame { ty, flags, body: b[start..start + rl as usize].to_vec(), used: start + rl as usize, minimal_rl: minimal }
        }
        Err(VbiErr::Incomplete) => Framed::Incomplete,
        Err(_) => Framed::BadLength { used: 5 },
    }
}

pub fn decode(ver: Ver, bytes: &[u8], w: usize) -> Result<AP, String> {
    match frame_one(bytes) {
        Framed::Frame { ty, flags, body, used, minimal_rl } => {
            if used != bytes.len() {
                return Err("trailing bytes after frame".into());
            }
            if !minimal_rl {
                return Err("non-minimal remaining length".into());
            }
            decode_body(ver, ty, flags, &body, w)
        }
        Framed::BadLength { .. } => Err("remaining length > 4 bytes".into()),
        Framed::Incomplete => Err("incomplete frame".into()),
    }
}

/// Total encoded size of a packet with `rl` remaining-length bytes of body.
pub fn total_size(rl: usize) -> usize {
    1 + enc_vbi(rl as u32).len() + rl
}

// ------------------------------------------------------------------------------------------
// who may send what (MQTT rules; used by C11 / C17)

/// May a *client* send this packet type in this version?
pub fn client_may_send(ty: u8, ver: Ver) -> bool {
    match ty {
        1 | 8 | 10 | 12 | 14 => true,
        3..=7 => true,
        15 => ver == Ver::V5,
        _ => false,
    }
}
/// May a *server* send this packet type in this version?
pub fn server_may_send(ty: u8, ver: Ver) -> bool {
    match ty {
        2 | 9 | 11 | 13 => true,
        3..=7 => true,
        14 | 15 => ver == Ver::V5,
        _ => false,
    }
}
