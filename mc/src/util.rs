//! Small shared utilities: fingerprints, panic capture, JSON helpers, wall/RSS caps.
use std::hash::{Hash, Hasher};
use std::panic::{catch_unwind, AssertUnwindSafe};
use std::sync::atomic::{AtomicBool, Ordering};
use std::sync::Once;
use std::time::Instant;

/// Second, independent 64-bit hasher (multiply-xorshift mixing over 8-byte words).
struct MixHasher(u64);
impl Hasher for MixHasher {
    fn finish(&self) -> u64 {
        let mut x = self.0;
        x ^= x >> 32;
        x = x.wrapping_mul(0xd6e8_feb8_6659_fd93);
        x ^= x >> 32;
        x = x.wrapping_mul(0xd6e8_feb8_6659_fd93);
        x ^ (x >> 32)
    }
    fn write(&mut self, bytes: &[u8]) {
        for c in bytes.chunks(8) {
            let mut w = [0u8; 8];
            w[..c.len()].copy_from_slice(c);
            let v = u64::from_le_bytes(w) ^ ((c.len() as u64) << 56);
            self.0 = (self.0 ^ v).wrapping_mul(0x9e37_79b9_7f4a_7c15).rotate_left(29) ^ 0x5851_f42d_4c95_7f2d;
        }
    }
}

/// Deterministic 128-bit fingerprint of any `Hash` value: SipHash-1-3 with fixed keys (std's
/// `DefaultHasher::new()`) plus an independent multiply-mix hash.
pub fn fp128<T: Hash + ?Sized>(v: &T) -> u128 {
    let mut a = std::collections::hash_map::DefaultHasher::new();
    let mut b = MixHasher(0x243f_6a88_85a3_08d3);
    v.hash(&mut a);
    v.hash(&mut b);
    ((a.finish() as u128) << 64) | (b.finish() as u128)
}

thread_local! {
    static LAST_PANIC: std::cell::RefCell<Option<String>> = const { std::cell::RefCell::new(None) };
}
static QUIET: AtomicBool = AtomicBool::new(true);
static HOOK: Once = Once::new();

/// Install a panic hook that records the message (with location) per thread and prints nothing.
pub fn install_quiet_panic_hook() {
    HOOK.call_once(|| {
        std::panic::set_hook(Box::new(|info| {
            let loc = info
                .location()
                .map(|l| format!("{}:{}", l.file(), l.line()))
                .unwrap_or_default();
            let msg = if let Some(s) = info.payload().downcast_ref::<&str>() {
                s.to_string()
            } else if let Some(s) = info.payload().downcast_ref::<String>() {
                s.clone()
            } else {
                "<non-string panic>".to_string()
            };
            let full = format!("{msg} @ {loc}");
            if !QUIET.load(Ordering::Relaxed) {
                eprintln!("panic: {full}");
            }
            LAST_PANIC.with(|p| *p.borrow_mut() = Some(full));
        }));
    });
}

pub fn set_quiet(q: bool) {
    QUIET.store(q, Ordering::Relaxed);
}

/// Run `f`, turning a panic into `Err(message @ file:line)`.
pub fn guarded<R>(f: impl FnOnce() -> R) -> Result<R, String> {
    install_quiet_panic_hook();
    LAST_PANIC.with(|p| *p.borrow_mut() = None);
    match catch_unwind(AssertUnwindSafe(f)) {
        Ok(r) => Ok(r),
        Err(_) => Err(LAST_PANIC
            .with(|p| p.borrow_mut().take())
            .unwrap_or_else(|| "<panic>".into())),
    }
}

/// Abstract a panic message into a stable signature component: the source location with the line
/// number dropped and the message reduced to its fixed text.
pub fn panic_sig(msg: &str) -> String {
    // "attempt to subtract with overflow @ /repo/src/mqtt/connection/core.rs:3046"
    let (m, loc) = match msg.rsplit_once(" @ ") {
        Some((m, l)) => (m, l),
        None => (msg, ""),
    };
    let file = loc.rsplit_once(':').map(|x| x.0).unwrap_or(loc);
    let file = file.rsplit('/').next().unwrap_or(file);
    let m: String = m
        .chars()
        .map(|c| if c.is_ascii_digit() { '#' } else { c })
        .take(60)
        .collect();
    format!("{m}@{file}")
}

pub fn hex(b: &[u8]) -> String {
    let mut s = String::with_capacity(b.len() * 2);
    for x in b {
        s.push_str(&format!("{x:02x}"));
    }
    s
}

pub fn hex_trunc(b: &[u8], max: usize) -> String {
    if b.len() <= max {
        hex(b)
    } else {
        format!("{}..(+{} bytes)", hex(&b[..max]), b.len() - max)
    }
}

pub fn unhex(s: &str) -> Vec<u8> {
    (0..s.len() / 2)
        .map(|i| u8::from_str_radix(&s[2 * i..2 * i + 2], 16).unwrap())
        .collect()
}

pub fn rss_mb() -> u64 {
    std::fs::read_to_string("/proc/self/statm")
        .ok()
        .and_then(|s| s.split_whitespace().nth(1).map(|x| x.to_string()))
        .and_then(|x| x.parse::<u64>().ok())
        .map(|pages| pages * 4096 / (1024 * 1024))
        .unwrap_or(0)
}

/// hand freed heap pages back to the system (glibc keeps them otherwise, and the resident size stays high)
pub fn trim_heap() {
    extern "C" {
        fn malloc_trim(pad: usize) -> i32;
    }
    unsafe {
        malloc_trim(0);
    }
}

pub struct Clock(Instant);
impl Clock {
    pub fn start() -> Self {
        Clock(Instant::now())
    }
    pub fn secs(&self) -> f64 {
        self.0.elapsed().as_secs_f64()
    }
}

pub fn threads() -> usize {
    std::env::var("VERIF_THREADS")
        .ok()
        .and_then(|s| s.parse().ok())
        .unwrap_or_else(|| {
            std::thread::available_parallelism()
                .map(|n| n.get())
                .unwrap_or(8)
                .min(16)
        })
}

pub fn seed() -> u64 {
    std::env::var("VERIF_SEED")
        .ok()
        .and_then(|s| s.parse().ok())
        .unwrap_or(0)
}

/// Run `f(i)` for i in 0..n on the worker pool and collect results in index order.
pub fn par_map<T: Send, F: Fn(usize) -> T + Sync>(n: usize, f: F) -> Vec<T> {
    let nt = threads().min(n.max(1));
    if nt <= 1 || n < 2 {
        return (0..n).map(f).collect();
    }
    let next = std::sync::atomic::AtomicUsize::new(0);
    let mut parts: Vec<Vec<(usize, T)>> = std::thread::scope(|s| {
        let hs: Vec<_> = (0..nt)
            .map(|_| {
                s.spawn(|| {
                    let mut out = Vec::new();
                    loop {
                        let i = next.fetch_add(1, Ordering::Relaxed);
                        if i >= n {
                            break;
                        }
                        out.push((i, f(i)));
                    }
                    out
                })
            })
            .collect();
        hs.into_iter().map(|h| h.join().expect("worker panicked")).collect()
    });
    let mut all: Vec<(usize, T)> = parts.drain(..).flatten().collect();
    all.sort_by_key(|x| x.0);
    all.into_iter().map(|x| x.1).collect()
}

/// field-wise difference of two values via their `Debug` rendering: returns (field names, text)
pub fn debug_diff<T: std::fmt::Debug>(a: &T, b: &T) -> (Vec<String>, String) {
    let sa = format!("{a:#?}");
    let sb = format!("{b:#?}");
    let mut names: Vec<String> = vec![];
    let mut text: Vec<String> = vec![];
    let mut cur = String::new();
    let la: Vec<&str> = sa.lines().collect();
    let lb: Vec<&str> = sb.lines().collect();
    // top-level fields start with exactly four spaces of indentation
    let split = |ls: &[&str]| -> Vec<(String, String)> {
        let mut out: Vec<(String, String)> = vec![];
        for l in ls {
            if l.starts_with("    ") && !l.starts_with("     ") && l.contains(':') {
                let name = l.trim().split(':').next().unwrap_or("").to_string();
                out.push((name, l.trim().to_string()));
            } else if let Some(last) = out.last_mut() {
                last.1.push(' ');
                last.1.push_str(l.trim());
            }
        }
        out
    };
    let fa = split(&la);
    let fb = split(&lb);
    for (x, y) in fa.iter().zip(fb.iter()) {
        if x != y {
            names.push(x.0.clone());
            let mut t = format!("{} | {}", x.1, y.1);
            t.truncate(400);
            text.push(t);
        }
    }
    let _ = &mut cur;
    (names, text.join(" ;; "))
}
