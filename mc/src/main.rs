//! mqttmc — model-checking harness for redboltz/mqtt-protocol-core (see /verif/DESIGN.md).
mod bridge;
mod conn;
mod ep;
mod explore;
mod genpk;
mod refcodec;
mod props;
mod report;
mod rules;
mod stim;
mod util;

use report::Report;

fn level_of(id: &str) -> &'static str {
    match id {
        "C02" | "C03" | "C04" | "C18" => "exploration",
        _ => "model_checking",
    }
}

fn usage() -> ! {
    eprintln!("usage: mqttmc check <ID> --tier quick|thorough\n       mqttmc replay <FILE>");
    std::process::exit(2)
}

fn main() {
    util::install_quiet_panic_hook();
    let args: Vec<String> = std::env::args().collect();
    if args.len() < 3 {
        usage();
    }
    match args[1].as_str() {
        "check" => {
            let id = args[2].to_uppercase();
            let mut tier = std::env::var("VERIF_TIER").unwrap_or_else(|_| "quick".into());
            let mut i = 3;
            while i < args.len() {
                if args[i] == "--tier" && i + 1 < args.len() {
                    tier = args[i + 1].clone();
                    i += 1;
                }
                i += 1;
            }
            if tier != "quick" && tier != "thorough" {
                usage();
            }
            let mut rep = Report::new(&id, &tier, level_of(&id));
            let r = util::guarded(|| match id.as_str() {
                "C01" => props::c01::run(&mut rep),
                "C02" => props::codec::c02(&mut rep),
                "C03" => props::codec::c03(&mut rep),
                "C04" => props::c04::run(&mut rep),
                "C05" => props::c05::run(&mut rep),
                "C06" => props::c06::run(&mut rep),
                "C07" => props::eps::c07(&mut rep),
                "C08" => props::eps::c08(&mut rep),
                "C10" => props::diff::c10(&mut rep),
                "C11" => props::c11::run(&mut rep),
                "C12" => props::eps::c12(&mut rep),
                "C13" => props::eps::c13(&mut rep),
                "C14" => props::eps::c14(&mut rep),
                "C15" => props::eps::c15(&mut rep),
                "C16" => props::diff::c16(&mut rep),
                "C17" => props::c17::run(&mut rep),
                "C18" => props::c18::run(&mut rep),
                "C19" => props::eps::c19(&mut rep),
                "C09" => props::c09::run(&mut rep),
                "C20" => props::c20::run(&mut rep),
                _ => {
                    eprintln!("unknown property {id}");
                    std::process::exit(2);
                }
            });
            if let Err(m) = r {
                eprintln!("MACHINERY-ERROR property={id} harness panicked: {m}");
                std::process::exit(4);
            }
            std::process::exit(rep.finish());
        }
        "replay" => {
            util::set_quiet(false);
            let s = std::fs::read_to_string(&args[2]).expect("cannot read replay file");
            let v: serde_json::Value = serde_json::from_str(&s).expect("replay file is not JSON");
            let prop = v["property"].as_str().unwrap_or("").to_string();
            let config = v["config"].as_str().unwrap_or("").to_string();
            let labels: Vec<String> = v["history"]
                .as_array()
                .map(|a| a.iter().map(|x| x.as_str().unwrap_or("").to_string()).collect())
                .unwrap_or_default();
            println!("replaying {} ({}), {} steps; expected: {}", prop, config, labels.len(), v["detail"]);
            let out = match prop.as_str() {
                "C01" => props::c01::replay(&config, &labels),
                "C02" | "C03" => props::codec::replay(&v),
                "C04" => props::c04::replay(&v),
                "C05" => props::c05::replay(&config, &labels),
                "C06" => props::c06::replay(&config, &labels),
                "C07" | "C08" | "C12" | "C13" | "C14" | "C15" | "C19" => props::eps::replay(&config, &labels),
                "C09" => props::c09::replay(&v),
                "C10" | "C16" => props::diff::replay(&config, &labels),
                "C11" => props::c11::replay(&v),
                "C17" => props::c17::replay(&config, &labels),
                "C18" => props::c18::replay(&v),
                "C20" => props::c20::replay(&config, &labels),
                _ => Err(format!("no replayer for {prop}")),
            };
            match out {
                Ok(log) => {
                    for l in &log {
                        println!("{l}");
                    }
                    let bad = log.iter().any(|l| l.contains("VIOLATION") || l.contains("PANIC"));
                    std::process::exit(if bad { 1 } else { 0 });
                }
                Err(e) => {
                    eprintln!("replay failed: {e}");
                    std::process::exit(2);
                }
            }
        }
        _ => usage(),
    }
}
