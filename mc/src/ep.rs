//! Endpoint world: one real connection object driven by a contract-respecting application model
//! and a scripted peer, with the reference model (`Mdl`) and rule groups for the
//! connection-level properties. See DESIGN.md §2.3–2.6.
#![allow(dead_code)]
use crate::bridge::{self, Pid};
use crate::conn::{ap_short, ConnBox, Ev, RoleK, Tk};
use crate as super_crate;
use crate::explore::{StepOut, World};
use crate::refcodec::{self as rc, AckKind, PVal, Prop, Ver, AP};
use mqtt_protocol_core::mqtt::connection::core::verif_hooks::VerifState;
use mqtt_protocol_core::mqtt::result_code::MqttError;
use std::collections::{BTreeMap, BTreeSet};
use std::sync::Arc;

// ------------------------------------------------------------------------------------------
// configuration

#[derive(Clone, Debug, PartialEq, Eq, Hash)]
pub struct ConnProf {
    pub clean: bool,
    pub ka: u16,
    pub sei: Option<u32>,
    pub rm: Option<u16>,
    pub tam: Option<u16>,
    pub mps: Option<u32>,
}
impl ConnProf {
    pub fn basic(clean: bool) -> Self {
        ConnProf { clean, ka: 0, sei: if clean { None } else { Some(100) }, rm: None, tam: None, mps: None }
    }
    /// v5.0: Clean Start 0 without a Session Expiry Interval - resumes an existing session that then ends
    /// with this connection (for v3.1.1 the same bytes as `basic(false)`)
    pub fn resume_no_expiry() -> Self {
        ConnProf { clean: false, ka: 0, sei: None, rm: None, tam: None, mps: None }
    }
    pub fn ap(&self, ver: Ver) -> AP {
        let mut props = vec![];
        if ver == Ver::V5 {
            if let Some(v) = self.sei {
                props.push(Prop { id: 0x11, val: PVal::U32(v) });
            }
            if let Some(v) = self.rm {
                props.push(Prop { id: 0x21, val: PVal::U16(v) });
            }
            if let Some(v) = self.mps {
                props.push(Prop { id: 0x27, val: PVal::U32(v) });
            }
            if let Some(v) = self.tam {
                props.push(Prop { id: 0x22, val: PVal::U16(v) });
            }
        }
        AP::Connect { ver, clean: self.clean, keep_alive: self.ka, client_id: b"cid".to_vec(), will: None, user: None, pass: None, props }
    }
    pub fn persistent(&self, ver: Ver) -> bool {
        match ver {
            Ver::V4 => !self.clean,
            Ver::V5 => self.sei.map(|v| v != 0).unwrap_or(false),
        }
    }
    pub fn label(&self) -> String {
        format!("clean={},ka={},sei={:?},rm={:?},tam={:?},mps={:?}", self.clean, self.ka, self.sei, self.rm, self.tam, self.mps)
    }
}

#[derive(Clone, Debug, PartialEq, Eq, Hash)]
pub struct AckProf {
    pub sp: bool,
    pub ok: bool,
    pub rm: Option<u16>,
    pub tam: Option<u16>,
    pub mps: Option<u32>,
    pub ska: Option<u16>,
    /// v5.0 CONNACK Session Expiry Interval (the server overrides the client's value)
    pub sei: Option<u32>,
    /// v5.0: a User Property with a value of this many bytes (makes the CONNACK large)
    pub pad: Option<usize>,
    /// v5.0: the properties in the reverse order (Server Keep Alive first ... Session Expiry Interval last): the
    /// order of properties in a block carries no meaning
    pub rev: bool,
}
impl AckProf {
    pub fn basic(sp: bool) -> Self {
        AckProf { sp, ok: true, rm: None, tam: None, mps: None, ska: None, sei: None, pad: None, rev: false }
    }
    /// session present, but the server limits the session to this connection (Session Expiry Interval 0)
    pub fn present_expiry_0() -> Self {
        AckProf { sei: Some(0), ..AckProf::basic(true) }
    }
    pub fn ap(&self, ver: Ver) -> AP {
        let mut props = vec![];
        if ver == Ver::V5 && self.ok {
            if let Some(v) = self.sei {
                props.push(Prop { id: 0x11, val: PVal::U32(v) });
            }
            if let Some(v) = self.rm {
                props.push(Prop { id: 0x21, val: PVal::U16(v) });
            }
            if let Some(v) = self.mps {
                props.push(Prop { id: 0x27, val: PVal::U32(v) });
            }
            if let Some(v) = self.tam {
                props.push(Prop { id: 0x22, val: PVal::U16(v) });
            }
            if let Some(v) = self.ska {
                props.push(Prop { id: 0x13, val: PVal::U16(v) });
            }
            if let Some(n) = self.pad {
                props.push(Prop { id: 0x26, val: PVal::Pair(b"k".to_vec(), vec![b'v'; n]) });
            }
        }
        if self.rev {
            props.reverse();
        }
        let code = if self.ok { 0 } else if ver == Ver::V5 { 0x87 } else { 5 };
        AP::Connack { ver, sp: self.sp && self.ok, code, props }
    }
}

#[derive(Clone, Copy, Debug, PartialEq, Eq, Hash, PartialOrd, Ord)]
pub enum Al {
    No,
    /// topic + alias (registers / rebinds)
    Reg(u16),
    /// empty topic + alias
    Use(u16),
}

#[derive(Clone, Debug, Default)]
pub struct Alph {
    pub pub_q: Vec<u8>,
    pub topics: usize,
    pub als: Vec<Al>,
    pub sub: bool,
    pub unsub: bool,
    pub ping: bool,
    pub disconnect: bool,
    pub auth: bool,
    pub erase: bool,
    pub set_interval: Vec<Option<u64>>,
    pub raw_ids: Vec<u32>,
    pub send_fail: bool,
    pub peer_pub_q: Vec<u8>,
    pub peer_ids: Vec<u32>,
    pub peer_dup: bool,
    pub peer_als: Vec<Al>,
    pub peer_acks: Vec<AckKind>,
    pub peer_ack_ids: Vec<u32>,
    pub peer_ack_err: bool,
    pub peer_sub: bool,
    pub peer_ping: bool,
    pub peer_disconnect: bool,
    pub peer_auth: bool,
    pub second_connack: bool,
    pub second_connect: bool,
    pub timers: bool,
    pub spontaneous_close: bool,
    pub partial: bool,
    /// manual-mode PUBREC reply may carry an error code (v5)
    pub reply_err: bool,
    /// manual responses (v5.0): every reply is first attempted with a 40-byte Reason String (PUBACK / PUBREC as
    /// error 0x80, PUBREL / PUBCOMP as success); if the library refuses it (peer's Maximum Packet Size) the
    /// application falls back to the plain reply - a refused reply must have changed nothing
    pub reply_big: bool,
    /// publishes may be issued while not connected
    pub pub_any_status: bool,
    /// manual mode: the application may defer the PUBREL it owes after PUBREC
    pub defer_pubrel: bool,
    /// probe regulate_for_store from every state (v5)
    pub regulate: bool,
    /// C11: fire every packet kind at send() from every reachable state
    pub send_probes: bool,
    /// refusal probe: the application may also use an alias it never registered on this connection
    /// (empty topic + unbound alias must be refused and release the identifier)
    pub use_unbound: bool,
    /// the peer may pipeline a CONNECT / CONNACK right behind its DISCONNECT (same read buffer)
    pub after_disconnect: bool,
    /// values the application may pass to set_pingresp_recv_timeout() at any time
    pub set_pingresp_to: Vec<u64>,
    /// index of the first topic of `TOPICS` this configuration uses (`topics` many from there)
    pub topic_base: usize,
    /// v5.0: DISCONNECT may carry Session Expiry Interval 0 (sent by a client / received by a server)
    pub disconnect_expiry0: bool,
    /// the client may pipeline PUBLISH packets behind its CONNECT (they arrive while the server owes the CONNACK)
    pub early_peer_traffic: bool,
    /// identifiers the application reserves itself (register_packet_id) for a publish instead of acquiring
    /// the lowest free one: exchanges with large identifier values (256, type maximum)
    pub pub_ids: Vec<u32>,
    /// option setters the application may call at any time (0 = set_auto_pub_response, 1 =
    /// set_offline_publish); each toggles the current value
    pub toggle_opts: Vec<u8>,
}

#[derive(Clone, Debug)]
pub struct EpCfg {
    pub name: String,
    pub role: RoleK,
    pub ver: Option<Ver>,
    pub auto_pub: bool,
    pub auto_ping: bool,
    pub offline: bool,
    pub auto_map: bool,
    pub auto_replace: bool,
    pub pingresp_to: u64,
    pub window: usize,
    pub connects: Vec<ConnProf>,
    pub connacks: Vec<AckProf>,
    pub alph: Alph,
    /// rule groups that report (e.g. "c06"); all models always run
    pub groups: Vec<&'static str>,
    pub max_timer_fires: u8,
    pub max_send_fails: u8,
    pub max_partials: u8,
    /// one-step raw stimuli fired from every reachable state (C05 / C17); (label, bytes)
    pub stimuli: Arc<Vec<(String, Vec<u8>)>>,
    /// undetermined-version objects: encode the peer's CONNECT menu with this one version
    pub force_connect_ver: Option<Ver>,
    /// v5.0: every PUBLISH of the application carries a User Property whose value has this many bytes (0 =
    /// none): property blocks around the 127 / 128 boundary in the connection-level checks
    pub pub_pad: usize,
    /// extra payload bytes of a publish that uses an alias with an empty topic (its store copy then outgrows the
    /// packet that registered the alias)
    pub use_extra: usize,
    /// the application's AUTH carries reason code 0x18 and an Authentication Method (8 bytes instead of 2)
    pub auth_method: bool,
}

impl EpCfg {
    pub fn new(name: &str, role: RoleK, ver: Option<Ver>) -> Self {
        EpCfg {
            name: name.to_string(),
            role,
            ver,
            auto_pub: false,
            auto_ping: false,
            offline: false,
            auto_map: false,
            auto_replace: false,
            pingresp_to: 0,
            window: 2,
            connects: if ver == Some(Ver::V4) { vec![ConnProf::basic(true), ConnProf::basic(false)] } else { vec![ConnProf::basic(true), ConnProf::basic(false), ConnProf::resume_no_expiry()] },
            connacks: if ver == Some(Ver::V4) { vec![AckProf::basic(false), AckProf::basic(true)] } else { vec![AckProf::basic(false), AckProf::basic(true), AckProf::present_expiry_0()] },
            alph: Alph::default(),
            groups: vec![],
            max_timer_fires: 2,
            max_send_fails: 1,
            max_partials: 1,
            stimuli: Arc::new(vec![]),
            force_connect_ver: None,
            pub_pad: 0,
            auth_method: false,
            use_extra: 0,
        }
    }
    pub fn on(&self, g: &str) -> bool {
        self.groups.iter().any(|x| *x == g)
    }
}

/// topics 0..2: short; 3 / 4: 123 and 124 bytes - a PUBLISH QoS 0 on them with the one-byte payload and (v5.0) an
/// empty property block has a 127- / 128-byte body, i.e. the last one-byte and the first two-byte Remaining Length
pub const TOPICS: [&[u8]; 5] = [b"a", b"bb", b"topic/long", &[b't'; 123], &[b't'; 124]];
pub const PAYLOAD: &[u8] = b"p";

// ------------------------------------------------------------------------------------------
// actions

#[derive(Clone, Debug, PartialEq, Eq, Hash)]
pub enum Act {
    Connect(u8),
    Connack(u8),
    Pub { q: u8, t: u8, al: Al, fail: bool },
    /// register_packet_id(id), then PUBLISH QoS q with it
    PubReg { q: u8, id: u32 },
    Sub { fail: bool },
    Unsub,
    Pingreq,
    Disconnect,
    /// v5.0 DISCONNECT carrying Session Expiry Interval 0 (the session ends with this connection)
    DisconnectExpiry0,
    /// v5.0 DISCONNECT carrying Session Expiry Interval 100 (keeps a persistent session; on a session that began
    /// with interval 0 it is a protocol error of the sender [MQTT-3.14.2-2] and cannot make it persistent)
    DisconnectKeep,
    Auth,
    Timer(Tk),
    Closed,
    SetInterval(u8),
    SetPingrespTo(u8),
    ToggleOpt(u8),
    Erase(u32),
    Acquire,
    Register(u32),
    Release(u32),
    // peer frames
    PConnect(u8),
    PConnack(u8),
    PPub { q: u8, id: u32, dup: bool, t: u8, al: Al, rep: u8 },
    PAck { kind: AckKind, id: u32, err: bool, defer: bool, nomatch: bool },
    /// deferred manual PUBREL for an exchange whose PUBREC was received earlier
    Pubrel(u32),
    PSub(u32),
    PUnsub(u32),
    PSuback(u32),
    PUnsuback(u32),
    PPingreq,
    PPingresp,
    PDisconnect,
    /// the peer's v5.0 DISCONNECT carrying Session Expiry Interval 0 (client to server only)
    PDisconnectExpiry0,
    PDisconnectKeep,
    PAuth,
    /// first `k` bytes of a PUBLISH q0 frame, then nothing (frame cut by the transport)
    PPartial(u8),
    /// raw stimulus number i of the configuration's stimulus list (probe)
    PRaw(u16),
    /// probe: regulate_for_store on (topic index or empty, alias)
    Regulate { t: Option<u8>, a: u16 },
    /// probe: hand packet kind i of `c11::probe_kinds()` to send() (C11 fan-out from every state)
    SendProbe(u8),
}

pub fn act_kind(a: &Act) -> String {
    match a {
        Act::Connect(_) => "Connect".into(),
        Act::Connack(_) => "Connack".into(),
        Act::Pub { q, al, fail, .. } => format!("Pub(q{}{}{})", q, match al { Al::No => "", Al::Reg(_) => ",reg-alias", Al::Use(_) => ",use-alias" }, if *fail { ",send-fails" } else { "" }),
        Act::PubReg { q, .. } => format!("PubReg(q{q})"),
        Act::Sub { fail } => format!("Sub{}", if *fail { "(send-fails)" } else { "" }),
        Act::Unsub => "Unsub".into(),
        Act::Pingreq => "Pingreq".into(),
        Act::Disconnect => "Disconnect".into(),
        Act::DisconnectExpiry0 => "Disconnect(sei=0)".into(),
        Act::DisconnectKeep => "Disconnect(sei=100)".into(),
        Act::Auth => "Auth".into(),
        Act::Timer(k) => format!("Timer({k:?})"),
        Act::Closed => "Closed".into(),
        Act::SetInterval(_) => "SetInterval".into(),
        Act::SetPingrespTo(_) => "SetPingrespTo".into(),
        Act::ToggleOpt(k) => format!("ToggleOpt({})", if *k == 0 { "auto_pub_response" } else { "offline_publish" }),
        Act::Erase(_) => "Erase".into(),
        Act::Acquire => "Acquire".into(),
        Act::Register(v) => format!("Register({})", if *v == 0 { "0" } else { "n" }),
        Act::Release(v) => format!("Release({})", if *v == 0 { "0" } else { "n" }),
        Act::PConnect(_) => "PConnect".into(),
        Act::PConnack(_) => "PConnack".into(),
        Act::PPub { q, al, dup, .. } => format!("PPub(q{}{}{})", q, if *dup { ",dup" } else { "" }, match al { Al::No => "", Al::Reg(_) => ",reg-alias", Al::Use(_) => ",use-alias" }),
        Act::PAck { kind, err, defer, nomatch, .. } => format!("P{}{}{}{}", kind.name(), if *err { "(err)" } else { "" }, if *nomatch { "(0x10)" } else { "" }, if *defer { "(reply deferred)" } else { "" }),
        Act::Pubrel(_) => "Pubrel(deferred)".into(),
        Act::PSub(_) => "PSub".into(),
        Act::PUnsub(_) => "PUnsub".into(),
        Act::PSuback(_) => "PSuback".into(),
        Act::PUnsuback(_) => "PUnsuback".into(),
        Act::PPingreq => "PPingreq".into(),
        Act::PPingresp => "PPingresp".into(),
        Act::PDisconnect => "PDisconnect".into(),
        Act::PDisconnectExpiry0 => "PDisconnect(sei=0)".into(),
        Act::PDisconnectKeep => "PDisconnect(sei=100)".into(),
        Act::PAuth => "PAuth".into(),
        Act::PPartial(_) => "PPartial".into(),
        Act::PRaw(_) => "PRaw".into(),
        Act::Regulate { t, .. } => format!("Regulate({})", if t.is_some() { "topic+alias" } else { "empty+alias" }),
        Act::SendProbe(i) => format!("SendProbe({})", crate::props::c11::probe_kinds().get(*i as usize).map(|k| k.0).unwrap_or("?")),
    }
}

// ------------------------------------------------------------------------------------------
// reference model

#[derive(Clone, Copy, Debug, PartialEq, Eq, Hash, PartialOrd, Ord)]
pub enum St {
    Disc,
    Connecting,
    Connected,
}

#[derive(Clone, Copy, Debug, PartialEq, Eq, Hash, PartialOrd, Ord)]
pub enum Owner {
    App,
    Sub,
    Unsub,
    Pub1,
    Pub2,
    /// QoS 2 exchange after PUBREC whose PUBREL the application has not issued yet
    RelOwed,
    /// QoS 2 exchange after PUBREC: PUBREL sent (or queued for re-sending), awaiting PUBCOMP
    Rel,
}

#[derive(Clone, Debug, PartialEq, Eq, Hash)]
pub struct StoreEnt {
    pub id: u32,
    /// 1 = PUBLISH q1, 2 = PUBLISH q2, 3 = PUBREL
    pub kind: u8,
    pub topic: Vec<u8>,
    pub payload: Vec<u8>,
    /// encoded size of the stored packet as the library holds it (properties included); 0 = unknown
    pub size: usize,
}

#[derive(Clone, Debug, PartialEq, Eq, Hash, Default)]
pub struct LinkFacts {
    pub peer_rm: Option<u16>,
    pub own_rm: Option<u16>,
    pub peer_tam: u16,
    pub own_tam: u16,
    pub peer_mps: Option<u32>,
    pub own_mps: Option<u32>,
    pub ka_connect: u16,
    pub ska: Option<u16>,
}

#[derive(Clone, Debug, PartialEq, Eq, Hash)]
pub struct Mdl {
    pub st: St,
    pub as_client: bool,
    pub ver: Option<Ver>,
    pub persistent: bool,
    /// the CONNECT of this connection asked for a clean start
    pub clean_start: bool,
    /// persistence of the session before the CONNECT of the current attempt, and whether the attempt got as
    /// far as a successful CONNACK: an attempt that is never established does not change the session
    pub persistent_before: bool,
    pub established: bool,
    /// while disconnected: the object is marked as keeping packets for the next connection because offline
    /// publishing was switched on (or was on when the last session ended); switching it off does not unmark
    pub keep_mark: bool,
    pub link: LinkFacts,
    pub link_up: bool,
    pub close_pending: bool,
    pub ids: BTreeMap<u32, Owner>,
    pub store: Vec<StoreEnt>,
    /// incomplete outbound QoS>0 exchanges transmitted on this connection
    pub out_n: u32,
    pub q2_notified: BTreeSet<u32>,
    /// identifiers (any owner) and notified QoS 2 identifiers that existed when the CONNECT of the current attempt was
    /// processed and have not been re-used since: the part of the state a 'session not present' answer discards
    pub old_ids: BTreeSet<u32>,
    pub old_q2: BTreeSet<u32>,
    pub in_unacked: BTreeSet<u32>,
    /// receiver's (peer's) alias table for what we sent on this connection
    pub peer_alias: BTreeMap<u16, Vec<u8>>,
    /// application's view of its own accepted registrations on this connection
    pub app_alias: BTreeMap<u16, u8>,
    /// bindings the peer made towards us on this connection
    pub recv_alias: BTreeMap<u16, Vec<u8>>,
    pub armed: [bool; 3],
    pub user_interval: Option<u64>,
    pub timer_fires: u8,
    pub send_fails: u8,
    pub partials: u8,
    /// a partial frame sits in the receive path of this transport
    pub partial_pending: bool,
    pub connack_owed: bool,
    /// manual mode: PUBREL owed by the application (PUBREC received, reply deferred)
    pub owed_rel: BTreeSet<u32>,
    /// the peer's DISCONNECT was delivered on this transport (the application closes next, but frames
    /// that follow it in the same read buffer can still reach recv())
    pub peer_disc: bool,
    /// current PINGRESP timeout setting (0 = none)
    pub pingresp_to: u64,
    /// current option values (start from the configuration, may be toggled)
    pub auto_pub: bool,
    pub offline: bool,
    pub opt_toggles: u8,
}

impl Mdl {
    fn new(ver: Option<Ver>, role: RoleK) -> Self {
        Mdl {
            st: St::Disc,
            as_client: role == RoleK::Client,
            ver,
            persistent: false,
            clean_start: true,
            persistent_before: false,
            established: false,
            keep_mark: false,
            link: LinkFacts::default(),
            link_up: false,
            close_pending: false,
            ids: BTreeMap::new(),
            store: vec![],
            out_n: 0,
            q2_notified: BTreeSet::new(),
            old_ids: BTreeSet::new(),
            old_q2: BTreeSet::new(),
            in_unacked: BTreeSet::new(),
            peer_alias: BTreeMap::new(),
            app_alias: BTreeMap::new(),
            recv_alias: BTreeMap::new(),
            armed: [false; 3],
            user_interval: None,
            timer_fires: 0,
            send_fails: 0,
            partials: 0,
            partial_pending: false,
            connack_owed: false,
            owed_rel: BTreeSet::new(),
            peer_disc: false,
            pingresp_to: 0,
            auto_pub: false,
            offline: false,
            opt_toggles: 0,
        }
    }
    pub fn new_session(&mut self) {
        self.owed_rel.clear();
        self.ids.clear();
        self.store.clear();
        self.q2_notified.clear();
        self.old_ids.clear();
        self.old_q2.clear();
    }
    /// remember what belongs to the session as it was before this CONNECT
    pub fn mark_old_session(&mut self) {
        // (identifiers the application merely holds are not part of the session: they stay its own)
        self.old_ids = self.ids.iter().filter(|(_, o)| **o != Owner::App).map(|(i, _)| *i).collect();
        self.old_q2 = self.q2_notified.clone();
    }
    /// 'session not present' after a CONNECT without clean start: the earlier session is discarded; what has been
    /// accepted / notified since the CONNECT belongs to the new one
    pub fn drop_old_session(&mut self) {
        // (an identifier that was released in the meantime - acknowledged early, erased - and is now held by the
        // application or by a pending SUBSCRIBE / UNSUBSCRIBE is no longer the old exchange's)
        let old: BTreeSet<u32> = std::mem::take(&mut self.old_ids).into_iter().filter(|id| matches!(self.ids.get(id), Some(Owner::Pub1 | Owner::Pub2 | Owner::Rel | Owner::RelOwed))).collect();
        for id in &old {
            self.ids.remove(id);
            self.owed_rel.remove(id);
        }
        self.store.retain(|e| !old.contains(&e.id));
        let oq = std::mem::take(&mut self.old_q2);
        self.q2_notified.retain(|i| !oq.contains(i));
    }
    /// a CONNECT was sent or received since the last close
    pub fn link_up_or_attempted(&self) -> bool {
        self.link_up || self.st != St::Disc || self.close_pending
    }
    fn exchanges(&self) -> usize {
        self.ids.values().filter(|o| **o != Owner::App).count()
    }
}

// ------------------------------------------------------------------------------------------
// one library call and what it returned

#[derive(Clone, Debug)]
pub enum CallKind {
    Send(AP),
    /// a complete frame delivered by the peer (decoded by the reference codec if conformant)
    Recv { frame: Vec<u8>, ap: Option<AP> },
    RecvPartial(Vec<u8>),
    Timer(Tk),
    Closed,
    SetInterval(Option<u64>),
    SetPingrespTo(u64),
    SetOpt(u8, bool),
    Acquire(Result<u32, MqttError>),
    Register(u32, Result<(), MqttError>),
    Release(u32),
    Erase(u32),
}

#[derive(Clone, Debug)]
pub struct Call {
    pub kind: CallKind,
    pub evs: Vec<Ev>,
}

impl Call {
    pub fn has_error(&self) -> bool {
        self.evs.iter().any(|e| matches!(e, Ev::Error(_)))
    }
    pub fn errors(&self) -> Vec<MqttError> {
        self.evs.iter().filter_map(|e| if let Ev::Error(x) = e { Some(*x) } else { None }).collect()
    }
    pub fn sends(&self) -> Vec<&AP> {
        self.evs.iter().filter_map(|e| if let Ev::Send { ap, .. } = e { Some(ap) } else { None }).collect()
    }
    pub fn recvs(&self) -> Vec<&AP> {
        self.evs.iter().filter_map(|e| if let Ev::Recv { ap, .. } = e { Some(ap) } else { None }).collect()
    }
    pub fn released(&self) -> Vec<u32> {
        self.evs.iter().filter_map(|e| if let Ev::Released(x) = e { Some(*x) } else { None }).collect()
    }
    pub fn has_close(&self) -> bool {
        self.evs.iter().any(|e| matches!(e, Ev::Close))
    }
    pub fn sent_ack(&self, kind: AckKind, id: u32) -> bool {
        self.sends().iter().any(|a| matches!(a, AP::Ack { kind: k, pid, .. } if *k == kind && *pid == id))
    }
    pub fn sent_publish(&self, id: Option<u32>) -> Option<&AP> {
        self.sends().into_iter().find(|a| matches!(a, AP::Publish { pid, .. } if *pid == id))
    }
    pub fn describe(&self) -> String {
        let k = match &self.kind {
            CallKind::Send(ap) => format!("send({})", ap_short(ap)),
            CallKind::Recv { frame, ap } => format!("recv({})", ap.as_ref().map(ap_short).unwrap_or_else(|| format!("raw {}", crate::util::hex_trunc(frame, 16)))),
            CallKind::RecvPartial(b) => format!("recv(partial {})", crate::util::hex_trunc(b, 16)),
            CallKind::Timer(k) => format!("notify_timer_fired({k:?})"),
            CallKind::Closed => "notify_closed()".into(),
            CallKind::SetInterval(d) => format!("set_pingreq_send_interval({d:?})"),
            CallKind::SetPingrespTo(d) => format!("set_pingresp_recv_timeout({d})"),
            CallKind::SetOpt(k, v) => format!("{}({v})", if *k == 0 { "set_auto_pub_response" } else { "set_offline_publish" }),
            CallKind::Acquire(r) => format!("acquire_packet_id() = {r:?}"),
            CallKind::Register(v, r) => format!("register_packet_id({v}) = {r:?}"),
            CallKind::Release(v) => format!("release_packet_id({v})"),
            CallKind::Erase(v) => format!("erase_stored_publish({v})"),
        };
        format!("{k} -> [{}]", self.evs.iter().map(|e| e.short()).collect::<Vec<_>>().join(", "))
    }
}

// ------------------------------------------------------------------------------------------
// the world

#[derive(Clone)]
pub struct Ep<P: Pid> {
    pub cfg: Arc<EpCfg>,
    pub conn: ConnBox<P>,
    pub m: Mdl,
}

/// a freshly constructed real connection with the configuration's options applied
pub fn fresh_conn<P: Pid>(cfg: &EpCfg, ver: Option<Ver>) -> ConnBox<P> {
    let mut conn = ConnBox::<P>::new(cfg.role, ver);
    conn.set_auto_pub_response(cfg.auto_pub);
    conn.set_auto_ping_response(cfg.auto_ping);
    if cfg.offline {
        conn.set_offline_publish(true);
    }
    conn.set_auto_map(cfg.auto_map);
    conn.set_auto_replace(cfg.auto_replace);
    if cfg.pingresp_to != 0 {
        conn.set_pingresp_recv_timeout(cfg.pingresp_to);
    }
    conn
}

impl<P: Pid> Ep<P> {
    pub fn new(cfg: Arc<EpCfg>) -> Self {
        let mut conn = ConnBox::<P>::new(cfg.role, cfg.ver);
        conn.set_auto_pub_response(cfg.auto_pub);
        conn.set_auto_ping_response(cfg.auto_ping);
        if cfg.offline {
            conn.set_offline_publish(true);
        }
        conn.set_auto_map(cfg.auto_map);
        conn.set_auto_replace(cfg.auto_replace);
        if cfg.pingresp_to != 0 {
            conn.set_pingresp_recv_timeout(cfg.pingresp_to);
        }
        let mut m = Mdl::new(cfg.ver, cfg.role);
        m.pingresp_to = cfg.pingresp_to;
        m.auto_pub = cfg.auto_pub;
        m.offline = cfg.offline;
        m.keep_mark = cfg.offline;
        Ep { cfg, conn, m }
    }

    pub fn ver(&self) -> Ver {
        self.m.ver.unwrap_or(Ver::V4)
    }
    fn v5(&self) -> bool {
        self.m.ver == Some(Ver::V5)
    }
    fn can_be_client(&self) -> bool {
        self.cfg.role != RoleK::Server
    }
    fn can_be_server(&self) -> bool {
        self.cfg.role != RoleK::Client
    }

    fn publish_ap(&self, q: u8, t: u8, al: Al, id: Option<u32>, dup: bool) -> AP {
        let ver = self.ver();
        let mut props = vec![];
        let topic = match al {
            Al::No => TOPICS[t as usize].to_vec(),
            Al::Reg(a) => {
                props.push(Prop { id: 0x23, val: PVal::U16(a) });
                TOPICS[t as usize].to_vec()
            }
            Al::Use(a) => {
                props.push(Prop { id: 0x23, val: PVal::U16(a) });
                vec![]
            }
        };
        if self.cfg.pub_pad > 0 && ver == Ver::V5 {
            props.push(Prop { id: 0x26, val: PVal::Pair(b"k".to_vec(), vec![b'v'; self.cfg.pub_pad]) });
        }
        let mut payload = PAYLOAD.to_vec();
        if matches!(al, Al::Use(_)) {
            payload.extend(std::iter::repeat(b'p').take(self.cfg.use_extra));
        }
        AP::Publish { ver, dup, qos: q, retain: false, topic, pid: id, props, payload }
    }

    fn lib_send(&mut self, ap: &AP) -> Call {
        let p = bridge::build::<P>(ap).ok().unwrap_or_else(|| panic!("harness: cannot build {ap:?}"));
        let evs = self.conn.send(p);
        Call { kind: CallKind::Send(ap.clone()), evs }
    }

    fn lib_recv_frame(&mut self, frame: Vec<u8>, ap: Option<AP>) -> Vec<Call> {
        let (lists, _n) = self.conn.recv_all(&frame);
        let mut out = vec![];
        for (i, evs) in lists.into_iter().enumerate() {
            out.push(Call { kind: if i == 0 { CallKind::Recv { frame: frame.clone(), ap: ap.clone() } } else { CallKind::Recv { frame: vec![], ap: None } }, evs });
        }
        out
    }

    /// the application's mandatory replies to what one recv call notified (manual mode)
    fn app_replies(&mut self, call: &Call, rep: u8, defer: bool, calls: &mut Vec<Call>) {
        if self.m.close_pending || call.has_close() {
            return;
        }
        let ver = self.ver();
        let big = self.cfg.alph.reply_big && ver == Ver::V5 && !self.m.auto_pub;
        let reason = || Some(vec![Prop { id: 0x1F, val: PVal::Str(vec![b'r'; 40]) }]);
        for ap in call.recvs().into_iter().cloned().collect::<Vec<_>>() {
            // the oversized first attempt; `true` = the library took it (it then is the reply)
            let first_try = |me: &mut Self, calls: &mut Vec<Call>, a: AP| -> bool {
                let c = me.lib_send(&a);
                let taken = !c.has_error();
                calls.push(c);
                taken
            };
            if big {
                let taken = match &ap {
                    AP::Publish { qos: 1, pid: Some(id), .. } => first_try(self, calls, AP::Ack { ver, kind: AckKind::Puback, pid: *id, code: Some(0x80), props: reason() }),
                    AP::Publish { qos: 2, pid: Some(id), .. } => first_try(self, calls, AP::Ack { ver, kind: AckKind::Pubrec, pid: *id, code: Some(0x80), props: reason() }),
                    AP::Ack { kind: AckKind::Pubrel, pid, .. } => first_try(self, calls, AP::Ack { ver, kind: AckKind::Pubcomp, pid: *pid, code: Some(0), props: reason() }),
                    AP::Ack { kind: AckKind::Pubrec, pid, code, .. } if code.map(|c| c < 0x80).unwrap_or(true) => first_try(self, calls, AP::Ack { ver, kind: AckKind::Pubrel, pid: *pid, code: Some(0), props: reason() }),
                    _ => false,
                };
                if taken || calls.last().map(|c| c.has_close()).unwrap_or(false) {
                    if calls.last().map(|c| c.has_close()).unwrap_or(false) {
                        break;
                    }
                    continue;
                }
            }
            match &ap {
                AP::Publish { qos: 1, pid: Some(id), .. } if !self.m.auto_pub => {
                    let code = if ver == Ver::V5 { match rep { 1 => Some(0x10), 2 => Some(0x80), _ => None } } else { None };
                    calls.push(self.lib_send(&AP::Ack { ver, kind: AckKind::Puback, pid: *id, code, props: None }));
                }
                AP::Publish { qos: 2, pid: Some(id), .. } if !self.m.auto_pub => {
                    let code = if ver == Ver::V5 { match rep { 1 => Some(0x10), 2 => Some(0x80), _ => None } } else { None };
                    calls.push(self.lib_send(&AP::Ack { ver, kind: AckKind::Pubrec, pid: *id, code, props: None }));
                }
                AP::Ack { kind: AckKind::Pubrel, pid, .. } if !self.m.auto_pub => {
                    calls.push(self.lib_send(&AP::Ack { ver, kind: AckKind::Pubcomp, pid: *pid, code: None, props: None }));
                }
                AP::Ack { kind: AckKind::Pubrec, pid, code, .. } if !self.m.auto_pub => {
                    if code.map(|c| c < 0x80).unwrap_or(true) {
                        if defer {
                            self.m.owed_rel.insert(*pid);
                        } else {
                            calls.push(self.lib_send(&AP::Ack { ver, kind: AckKind::Pubrel, pid: *pid, code: None, props: None }));
                        }
                    }
                }
                AP::Subscribe { pid, .. } => {
                    calls.push(self.lib_send(&AP::Suback { ver, pid: *pid, props: vec![], codes: vec![0] }));
                }
                AP::Unsubscribe { pid, .. } => {
                    calls.push(self.lib_send(&AP::Unsuback { ver, pid: *pid, props: vec![], codes: if ver == Ver::V5 { vec![0] } else { vec![] } }));
                }
                AP::Pingreq { .. } if !self.cfg.auto_ping && !self.m.as_client => {
                    calls.push(self.lib_send(&AP::Pingresp { ver }));
                }
                _ => {}
            }
            if calls.last().map(|c| c.has_close()).unwrap_or(false) {
                break;
            }
        }
    }

    /// C11 fan-out: a send the MQTT rules refuse in this state (whatever the session flags are) must
    /// return exactly one error (+ release of a fresh identifier) and leave the object as it was
    fn step_send_probe(&mut self, i: usize, out: &mut StepOut) {
        use crate::props::c11::{expect, owns_fresh_id, probe_kinds, with_id, Exp, St as CSt};
        let kinds = probe_kinds();
        let (kname, ap0) = &kinds[i];
        let st = match self.m.st {
            St::Disc => CSt::Disc,
            St::Connecting => CSt::Connecting,
            St::Connected => CSt::Connected,
        };
        let ver = self.m.ver.or(self.cfg.ver);
        // only cells that are refusals under both values of the store flag are judged here
        let e1 = expect(self.cfg.role, ver, st, true, self.m.offline, ap0);
        let e2 = expect(self.cfg.role, ver, st, false, self.m.offline, ap0);
        let mut rules = Rules { out, cfg: self.cfg.clone(), act: Act::SendProbe(i as u8) };
        if e1 != Exp::Refuse || e2 != Exp::Refuse {
            rules.label("c11.fanout-allowed");
            return;
        }
        let pre_m = self.m.clone();
        let s0 = self.conn.snap();
        let mut ap = ap0.clone();
        let mut fresh = None;
        if owns_fresh_id(ap0) {
            match self.conn.acquire() {
                Ok(id) => {
                    fresh = Some(id);
                    ap = with_id(ap0, id);
                }
                Err(_) => return,
            }
        }
        let s1 = self.conn.snap();
        let evs = self.conn.send(bridge::build::<P>(&ap).ok().expect("probe packet"));
        let s2 = self.conn.snap();
        rules.label("c11.fanout-refusal-checked");
        let errs = evs.iter().filter(|e| matches!(e, Ev::Error(_))).count();
        let shape_ok = errs == 1 && evs.len() == 1 + fresh.is_some() as usize && fresh.map(|id| evs.iter().any(|e| matches!(e, Ev::Released(x) if *x == id))).unwrap_or(true);
        if !shape_ok {
            rules.viol_sig("c11.refusal-events", format!("c11.refusal-events|{kname}|{:?}|fanout", self.m.st), &pre_m, format!("{kname} in status {:?}: a refused send must return exactly one error event{}: got {:?}", self.m.st, if fresh.is_some() { " plus the release of the packet's identifier" } else { "" }, evs.iter().map(|e| e.short()).collect::<Vec<_>>()));
        } else {
            let base = if fresh.is_some() { &s0 } else { &s1 };
            if &s2 != base {
                let (names, text) = crate::util::debug_diff(base, &s2);
                rules.viol_sig("c11.refusal-left-state", format!("c11.refusal-left-state|{kname}|{:?}|{}", self.m.st, names.join("+")), &pre_m, format!("{kname} refused in status {:?} but the connection differs afterwards in {names:?}: {text}", self.m.st));
            }
        }
    }

    /// C05 stimulus: feed raw bytes, check the one-step oracle, then the fixed follow-up (close,
    /// fresh handshake in the object's role must succeed).
    fn step_raw(&mut self, i: usize, out: &mut StepOut) {
        crate::rules::reset();
        let (label, bytes) = self.cfg.stimuli[i].clone();
        let pre_m = self.m.clone();
        let ver_for_decode = self.m.ver.unwrap_or(Ver::V4);
        let pre_snap = self.conn.snap();
        let stored = pre_snap.store.len();
        let (lists, _n) = self.conn.recv_all(&bytes);
        let post_recv_snap = self.conn.snap();
        self.m.link_up = true;
        let mut rules = Rules { out, cfg: self.cfg.clone(), act: Act::PRaw(i as u16) };
        // which complete frames does the stimulus contain (reference framing)?
        let mut off = 0usize;
        let mut frames: Vec<Option<(Vec<u8>, Option<AP>)>> = vec![];
        while off < bytes.len() {
            match rc::frame_one(&bytes[off..]) {
                rc::Framed::Frame { ty, flags, body, used, .. } => {
                    let ap = rc::decode_body(ver_for_decode, ty, flags, &body, P::W).ok();
                    frames.push(Some((bytes[off..off + used].to_vec(), ap)));
                    off += used;
                }
                rc::Framed::BadLength { used } => {
                    frames.push(None);
                    off += used;
                }
                rc::Framed::Incomplete => break,
            }
        }
        for (k, evs) in lists.iter().enumerate() {
            let c = Call { kind: CallKind::Recv { frame: frames.get(k).and_then(|f| f.as_ref().map(|x| x.0.clone())).unwrap_or_default(), ap: None }, evs: evs.clone() };
            rules.out.say(|| format!("stimulus {label}: {}", c.describe()));
            if evs.len() > 16 + 2 * stored {
                rules.viol("c05.event-bound", &pre_m, format!("one recv call returned {} events (stored packets: {stored}) for stimulus {label}", evs.len()));
            }
            // a complete frame must be delivered, answered as a duplicate, or reported
            if let Some(Some((_f, _ap))) = frames.get(k) {
                let delivered = !c.recvs().is_empty();
                let dup_answer = c.sends().iter().any(|a| matches!(a, AP::Ack { kind: AckKind::Pubrec, .. } | AP::Ack { kind: AckKind::Pubcomp, .. }));
                if !delivered && !c.has_error() && !dup_answer {
                    let f = &frames[k].as_ref().unwrap().0;
                    rules.viol_sig("c05.unclassified", crate::rules::unclassified_sig(f[0], &pre_m), &pre_m, format!("complete frame of stimulus {label} was neither delivered, answered as a duplicate nor reported: {}", c.describe()));
                } else {
                    rules.label(if delivered { "c05.stim-delivered" } else if c.has_error() { "c05.stim-reported" } else { "c05.stim-dup-answered" });
                }
            } else if frames.get(k).map(|f| f.is_none()).unwrap_or(false) {
                if !c.has_error() {
                    rules.viol("c05.bad-length-unreported", &pre_m, format!("a Remaining Length longer than four bytes was not reported: {}", c.describe()));
                }
                rules.label("c05.stim-bad-length");
            }
            // C14 inbound, on the bytes that really arrived: a frame larger than the announced maximum is not
            // delivered - however its Remaining Length is encoded
            if let (Some(Some((f, _))), Some(Ver::V5), Some(l)) = (frames.get(k), pre_m.ver, pre_m.link.own_mps) {
                let ty = f[0] >> 4;
                if f.len() as u64 > l as u64 && ty != 1 && ty != 2 && pre_m.st == St::Connected {
                    rules.label("c14.inbound-oversize-raw");
                    if !c.recvs().is_empty() {
                        rules.viol("c14.oversize-delivered", &pre_m, format!("a frame of {} bytes on the wire exceeds the announced Maximum Packet Size {} but was delivered: stimulus {label}: {}", f.len(), l, c.describe()));
                    }
                    // a well-formed frame header (one-byte Remaining Length) leaves nothing to object to but the
                    // size - whatever the packet type, also one this role never receives: 'Packet too large'
                    let disc = c.sends().iter().any(|a| matches!(a, AP::Disconnect { code: Some(0x95), .. }));
                    if f.len() >= 2 && f[1] < 0x80 && f.len() == 2 + f[1] as usize && !(ty == 0 || ty == 15) && !disc && pre_m.link.peer_mps.map(|p| p >= 4).unwrap_or(true) {
                        rules.label("c14.inbound-oversize-raw-unanswered");
                        rules.viol("c14.oversize-not-answered", &pre_m, format!("a well-formed frame of {} bytes exceeds the announced Maximum Packet Size {} but no DISCONNECT(0x95) is sent: stimulus {label}: {}", f.len(), l, c.describe()));
                    } else if disc {
                        rules.label("c14.inbound-oversize-raw-answered");
                    }
                }
            }
            crate::rules::close_order_pub(&pre_m, &c, &mut rules);
            // C17: receive gating by role / reserved types / nothing but CONNECT before the version is known
            if let Some(Some((f, _))) = frames.get(k) {
                if k == 0 {
                    let ty = f[0] >> 4;
                    let v4 = pre_m.ver == Some(Ver::V4);
                    let forbidden_role = match self.cfg.role {
                        RoleK::Client => matches!(ty, 1 | 8 | 10 | 12) || (v4 && ty == 14),
                        RoleK::Server => matches!(ty, 2 | 9 | 11 | 13),
                        RoleK::Any => false,
                    };
                    let reserved = ty == 0 || (v4 && ty == 15);
                    let undetermined = pre_m.ver.is_none();
                    if forbidden_role || reserved || (undetermined && ty != 1) {
                        rules.label(if undetermined { "c17.undetermined-non-connect" } else if reserved { "c17.reserved-type" } else { "c17.forbidden-direction" });
                        let delivered = !c.recvs().is_empty();
                        let err_ok = c.errors().iter().any(|e| matches!(e, MqttError::ProtocolError | MqttError::MalformedPacket));
                        let other_send = c.sends().iter().any(|a| !matches!(a, AP::Disconnect { .. }));
                        if delivered || !err_ok || other_send {
                            rules.viol_sig("c17.gating", format!("c17.gating|{:?}|type{}|{}", self.cfg.role, ty, super_crate::props::epc::ver_name(pre_m.ver)), &pre_m, format!("packet type {ty} can never be sent by the remote side of a {:?} ({}): expected a protocol error, no delivery, nothing transmitted but a DISCONNECT; got {}", self.cfg.role, super_crate::props::epc::ver_name(pre_m.ver), c.describe()));
                        }
                        if snapshot_session_scope(&pre_snap) != snapshot_session_scope(&post_recv_snap) || (undetermined && post_recv_snap.protocol_version != 0) {
                            rules.viol_sig("c17.gating-state", format!("c17.gating-state|{:?}|type{}|{}", self.cfg.role, ty, super_crate::props::epc::ver_name(pre_m.ver)), &pre_m, format!("a packet of forbidden type {ty} changed session state or the protocol version: {}", c.describe()));
                        }
                    } else if (ty == 1 && !pre_m.as_client && pre_m.st != St::Disc && !undetermined) || (ty == 2 && pre_m.as_client && pre_m.st == St::Connected) {
                        // CONNECT / CONNACK on an established connection (a server that has received
                        // CONNECT is established for this purpose: a second CONNECT is a protocol error)
                        rules.label(if ty == 1 { "c17.connect-on-established" } else { "c17.connack-on-established" });
                        let delivered = !c.recvs().is_empty();
                        let err_ok = c.errors().iter().any(|e| matches!(e, MqttError::ProtocolError | MqttError::MalformedPacket));
                        if delivered || !err_ok {
                            rules.viol_sig("c17.on-established", format!("c17.on-established|type{}|{:?}", ty, pre_m.st), &pre_m, format!("a {} arriving in status {:?} must be a protocol error and must not be delivered: {}", if ty == 1 { "CONNECT" } else { "CONNACK" }, pre_m.st, c.describe()));
                        }
                        if snapshot_session_scope(&pre_snap) != snapshot_session_scope(&post_recv_snap) {
                            rules.viol_sig("c17.on-established-state", format!("c17.on-established-state|type{}|{:?}", ty, pre_m.st), &pre_m, format!("a {} arriving in status {:?} changed session state: {}", if ty == 1 { "CONNECT" } else { "CONNACK" }, pre_m.st, c.describe()));
                        }
                    } else if undetermined && ty == 1 {
                        // CONNECT on an undetermined server: levels 4 / 5 are adopted, others refused
                        let level = f.get(8).copied().unwrap_or(0);
                        let adopted = post_recv_snap.protocol_version;
                        if level == 4 || level == 5 {
                            rules.label("c17.undetermined-adopts");
                            // (a CONNECT of a supported level fixes the version whether it is then delivered or turned
                            // down by the parser of that version - it has been answered in that version's format)
                            if (!c.recvs().is_empty() || !c.sends().is_empty()) && adopted != level {
                                rules.viol_sig("c17.adoption", format!("c17.adoption|level{level}"), &pre_m, format!("CONNECT level {level} was {} but get_protocol_version() is {adopted}: {}", if c.recvs().is_empty() { "answered" } else { "delivered" }, c.describe()));
                            }
                        } else {
                            rules.label("c17.undetermined-rejects-level");
                            if !c.recvs().is_empty() || adopted != 0 || !c.errors().contains(&MqttError::UnsupportedProtocolVersion) {
                                rules.viol_sig("c17.adoption", format!("c17.adoption|level{level}"), &pre_m, format!("CONNECT with protocol level {level} must be rejected with UnsupportedProtocolVersion and leave the version undetermined: {} (version now {adopted})", c.describe()));
                            }
                        }
                    }
                }
            }
        }
        if lists.iter().all(|l| l.is_empty()) {
            rules.label("c05.stim-incomplete");
        }
        // follow-up: the application closes, reports it, and connects again
        let _ = self.conn.notify_closed();
        let after_close = self.conn.snap();
        if after_close.status != 0 || after_close.pingreq_send_set || after_close.pingreq_recv_set || after_close.pingresp_recv_set {
            rules.viol("c05.not-closed", &pre_m, format!("after notify_closed() status={} timers={}/{}/{}", after_close.status, after_close.pingreq_send_set, after_close.pingreq_recv_set, after_close.pingresp_recv_set));
        }
        // an undetermined-version server keeps the version it adopted from a CONNECT
        let hv = match after_close.protocol_version {
            4 => Ver::V4,
            5 => Ver::V5,
            _ => self.m.ver.or(self.cfg.ver).unwrap_or(Ver::V4),
        };
        if self.can_be_client() && (self.cfg.ver.is_some() || self.m.ver.is_some()) {
            let mut c = self.conn.clone();
            let p = bridge::build::<P>(&ConnProf::basic(true).ap(hv)).ok().expect("connect");
            let evs = c.send(p);
            if !evs.iter().any(|e| e.is_send_of(1)) {
                rules.viol("c05.wedged", &pre_m, format!("after stimulus {label} + notify_closed() a new CONNECT is refused: {:?}", evs.iter().map(|e| e.short()).collect::<Vec<_>>()));
            } else {
                let (l, _) = c.recv_all(&rc::encode(&AckProf::basic(false).ap(hv), P::W));
                if !l.iter().flatten().any(|e| e.is_recv_of(2)) {
                    rules.viol("c05.wedged", &pre_m, format!("after stimulus {label} + notify_closed() + CONNECT the CONNACK is not delivered: {:?}", l.iter().flatten().map(|e| e.short()).collect::<Vec<_>>()));
                }
                rules.label("c05.followup-client-handshake");
            }
        }
        if self.can_be_server() {
            let mut c = self.conn.clone();
            let (l, _) = c.recv_all(&rc::encode(&ConnProf::basic(true).ap(hv), P::W));
            if !l.iter().flatten().any(|e| e.is_recv_of(1)) {
                rules.viol("c05.wedged", &pre_m, format!("after stimulus {label} + notify_closed() a new CONNECT is not delivered: {:?}", l.iter().flatten().map(|e| e.short()).collect::<Vec<_>>()));
            } else {
                let p = bridge::build::<P>(&AckProf::basic(false).ap(hv)).ok().expect("connack");
                let evs = c.send(p);
                if !evs.iter().any(|e| e.is_send_of(2)) {
                    rules.viol("c05.wedged", &pre_m, format!("after stimulus {label} + close + CONNECT the CONNACK cannot be sent: {:?}", evs.iter().map(|e| e.short()).collect::<Vec<_>>()));
                }
                rules.label("c05.followup-server-handshake");
            }
        }
    }

    fn peer_frame(&self, a: &Act) -> Option<AP> {
        let ver = self.ver();
        Some(match a {
            Act::PConnect(i) => {
                let v = self.m.ver.or(self.cfg.ver).or(self.cfg.force_connect_ver).unwrap_or(if *i as usize >= self.cfg.connects.len() { Ver::V5 } else { Ver::V4 });
                self.cfg.connects[(*i as usize) % self.cfg.connects.len()].ap(v)
            }
            Act::PConnack(i) => self.cfg.connacks[*i as usize].ap(ver),
            Act::PPub { q, id, dup, t, al, .. } => self.publish_ap(*q, *t, *al, if *q > 0 { Some(*id) } else { None }, *dup),
            Act::PAck { kind, id, err, nomatch, .. } => AP::Ack {
                ver,
                kind: *kind,
                pid: *id,
                code: if *err && ver == Ver::V5 { Some(if matches!(kind, AckKind::Pubrel | AckKind::Pubcomp) { 0x92 } else { 0x80 }) } else if *nomatch && ver == Ver::V5 { Some(0x10) } else { None },
                props: None,
            },
            Act::PSub(id) => AP::Subscribe { ver, pid: *id, props: vec![], entries: vec![(b"f".to_vec(), 0)] },
            Act::PUnsub(id) => AP::Unsubscribe { ver, pid: *id, props: vec![], filters: vec![b"f".to_vec()] },
            Act::PSuback(id) => AP::Suback { ver, pid: *id, props: vec![], codes: vec![0] },
            Act::PUnsuback(id) => AP::Unsuback { ver, pid: *id, props: vec![], codes: if ver == Ver::V5 { vec![0] } else { vec![] } },
            Act::PPingreq => AP::Pingreq { ver },
            Act::PPingresp => AP::Pingresp { ver },
            Act::PDisconnect => AP::Disconnect { ver, code: None, props: None },
            Act::PDisconnectExpiry0 => AP::Disconnect { ver, code: Some(0), props: Some(vec![Prop { id: 0x11, val: PVal::U32(0) }]) },
            Act::PDisconnectKeep => AP::Disconnect { ver, code: Some(0), props: Some(vec![Prop { id: 0x11, val: PVal::U32(100) }]) },
            Act::PAuth => AP::Auth { code: None, props: None },
            _ => return None,
        })
    }
}

impl<P: Pid> World for Ep<P> {
    type Act = Act;

    fn enabled(&self) -> Vec<Act> {
        let c = &*self.cfg;
        let al = &c.alph;
        let m = &self.m;
        let mut v = vec![];
        if m.close_pending {
            // the contract: after a close request (or a broken transport) the next call is notify_closed()
            let mut v = vec![Act::Closed];
            // ... except that frames following the peer's DISCONNECT in the same read buffer are still fed
            if al.after_disconnect && m.peer_disc && m.link_up && m.ver.is_some() {
                if m.as_client {
                    for i in 0..c.connacks.len() {
                        v.push(Act::PConnack(i as u8));
                    }
                } else {
                    for i in 0..c.connects.len() {
                        v.push(Act::PConnect(i as u8));
                    }
                }
            }
            return v;
        }
        let version_known = m.ver.is_some();
        // ---- local calls
        if self.can_be_client() && m.st == St::Disc && version_known {
            for i in 0..c.connects.len() {
                v.push(Act::Connect(i as u8));
            }
        }
        if !m.as_client && m.st == St::Connecting && m.connack_owed {
            for i in 0..c.connacks.len() {
                v.push(Act::Connack(i as u8));
            }
            // the server application answers CONNECT before anything else of its own; an armed timer
            // may still expire first
            if al.spontaneous_close {
                v.push(Act::Closed);
            }
            if al.timers && m.timer_fires < c.max_timer_fires {
                for k in Tk::ALL {
                    if m.armed[k.idx()] {
                        v.push(Act::Timer(k));
                    }
                }
            }
            // a client may pipeline packets behind its CONNECT: they reach the server before it answered
            if al.early_peer_traffic && m.link_up && version_known {
                for &q in &al.peer_pub_q {
                    let ids: Vec<u32> = if q == 0 { vec![0] } else { al.peer_ids.clone() };
                    for id in ids {
                        v.push(Act::PPub { q, id, dup: false, t: al.topic_base as u8, al: Al::No, rep: 0 });
                        if al.peer_dup && q > 0 {
                            v.push(Act::PPub { q, id, dup: true, t: al.topic_base as u8, al: Al::No, rep: 0 });
                        }
                    }
                }
                // ... including the acknowledgements it owes for a resumed session
                for &k in &al.peer_acks {
                    for &id in &al.peer_ack_ids {
                        v.push(Act::PAck { kind: k, id, err: false, defer: false, nomatch: false });
                    }
                }
                // a role-Any object that acts as the server here must treat a CONNACK as what it is
                if c.role == RoleK::Any && al.second_connack {
                    v.push(Act::PConnack(0));
                }
            }
            // extended authentication: the server's AUTH precedes its CONNACK
            if al.auth && self.v5() && version_known {
                v.push(Act::Auth);
            }
            // ... and the library lets it hand over QoS>0 publishes of a persistent session already
            // (they are stored and go out behind the CONNACK)
            if al.pub_any_status && version_known && m.exchanges() < c.window {
                for &q in &al.pub_q {
                    if q > 0 {
                        for t in al.topic_base..al.topic_base + al.topics.max(1) {
                            for &a in &al.als {
                                if matches!(a, Al::No) || (matches!(a, Al::Reg(_)) && self.v5()) {
                                    v.push(Act::Pub { q, t: t as u8, al: a, fail: false });
                                }
                            }
                        }
                    }
                }
            }
            return v;
        }
        let local_ok = version_known && (m.st == St::Connected || al.pub_any_status);
        if local_ok && m.exchanges() < c.window {
            for &q in &al.pub_q {
                if q > 0 || m.st == St::Connected {
                    for t in al.topic_base..al.topic_base + al.topics.max(1) {
                        for &a in &al.als {
                            // contract: empty topic + alias only after an accepted registration on this connection
                            let ok = match a {
                                Al::No => true,
                                Al::Reg(_) => self.v5() && (m.st == St::Connected || (al.pub_any_status && m.st == St::Connecting)),
                                Al::Use(x) => self.v5() && m.st == St::Connected && !c.auto_map && (m.app_alias.get(&x) == Some(&(t as u8)) || (al.use_unbound && t == 0 && !m.app_alias.contains_key(&x))),
                            };
                            if ok {
                                v.push(Act::Pub { q, t: t as u8, al: a, fail: false });
                                if al.send_fail && m.send_fails < c.max_send_fails && m.st == St::Connected && a == Al::No && t == 0 {
                                    v.push(Act::Pub { q, t: t as u8, al: a, fail: true });
                                }
                            }
                        }
                    }
                }
            }
            for &id in &al.pub_ids {
                if !m.ids.contains_key(&id) {
                    for &q in &al.pub_q {
                        if q > 0 {
                            v.push(Act::PubReg { q, id });
                        }
                    }
                }
            }
            if m.as_client {
                if al.sub {
                    v.push(Act::Sub { fail: false });
                    if al.send_fail && m.send_fails < c.max_send_fails && m.st == St::Connected {
                        v.push(Act::Sub { fail: true });
                    }
                }
                if al.unsub {
                    v.push(Act::Unsub);
                }
            }
        }
        for id in &m.owed_rel {
            v.push(Act::Pubrel(*id));
        }
        if version_known && m.st == St::Connected {
            if al.ping && m.as_client {
                v.push(Act::Pingreq);
            }
            if al.disconnect && (m.as_client || self.v5()) {
                v.push(Act::Disconnect);
                if al.disconnect_expiry0 && self.v5() && m.as_client {
                    v.push(Act::DisconnectExpiry0);
                    v.push(Act::DisconnectKeep);
                }
            }
        }
        if version_known && al.auth && self.v5() && m.st != St::Disc {
            v.push(Act::Auth);
        }
        if al.timers && m.timer_fires < c.max_timer_fires {
            for k in Tk::ALL {
                if m.armed[k.idx()] {
                    v.push(Act::Timer(k));
                }
            }
        }
        if al.spontaneous_close && m.link_up {
            v.push(Act::Closed);
        }
        if m.as_client || c.role == RoleK::Any {
            for i in 0..al.set_interval.len() {
                v.push(Act::SetInterval(i as u8));
            }
            for (i, t) in al.set_pingresp_to.iter().enumerate() {
                if *t != m.pingresp_to {
                    v.push(Act::SetPingrespTo(i as u8));
                }
            }
        }
        if m.opt_toggles < 2 {
            for &k in &al.toggle_opts {
                v.push(Act::ToggleOpt(k));
            }
        }
        if al.erase {
            // erase_stored_publish(id) for every stored entry: a stored PUBLISH is erased and its
            // identifier released; for a stored PUBREL (the exchange is past PUBREC) and for an
            // exchange whose PUBREL is still owed the call must change nothing
            for e in &m.store {
                v.push(Act::Erase(e.id));
            }
            for id in &m.owed_rel {
                if !m.store.iter().any(|e| e.id == *id) {
                    v.push(Act::Erase(*id));
                }
            }
        }
        if !al.raw_ids.is_empty() {
            if m.ids.len() < c.window + 1 {
                v.push(Act::Acquire);
            }
            for &r in &al.raw_ids {
                if m.ids.len() < c.window + 1 || m.ids.contains_key(&r) || r == 0 {
                    v.push(Act::Register(r));
                }
                // the application only releases ids it holds itself (or probes with free / zero ids)
                if !m.ids.contains_key(&r) || m.ids.get(&r) == Some(&Owner::App) {
                    v.push(Act::Release(r));
                }
            }
        }
        // ---- peer frames
        let peer_ok = m.link_up || m.st == St::Disc;
        if !peer_ok {
            return v;
        }
        if self.can_be_server() && (m.st == St::Disc || (al.second_connect && !m.as_client && m.link_up)) {
            let n = c.connects.len() * if c.ver.is_none() && m.ver.is_none() && c.force_connect_ver.is_none() { 2 } else { 1 };
            for i in 0..n {
                v.push(Act::PConnect(i as u8));
            }
        }
        if !version_known || !m.link_up {
            return v;
        }
        if m.as_client && (m.st == St::Connecting || (al.second_connack && m.st == St::Connected)) {
            for i in 0..c.connacks.len() {
                v.push(Act::PConnack(i as u8));
            }
        }
        if m.st == St::Connected {
            for &q in &al.peer_pub_q {
                let ids: Vec<u32> = if q == 0 { vec![0] } else { al.peer_ids.clone() };
                for id in ids {
                    for t in al.topic_base..al.topic_base + al.topics.max(1) {
                        for &a in if al.peer_als.is_empty() { &[Al::No][..] } else { &al.peer_als[..] } {
                            if a != Al::No && !self.v5() {
                                continue;
                            }
                            if matches!(a, Al::Use(_)) && t > al.topic_base {
                                continue;
                            }
                            for dup in if al.peer_dup && q > 0 { vec![false, true] } else { vec![false] } {
                                let reps: Vec<u8> = if q > 0 && al.reply_err && !m.auto_pub && self.v5() { vec![0, 1, 2] } else { vec![0] };
                                for rep in reps {
                                    v.push(Act::PPub { q, id, dup, t: t as u8, al: a, rep });
                                }
                            }
                        }
                    }
                }
            }
            for &k in &al.peer_acks {
                for &id in &al.peer_ack_ids {
                    v.push(Act::PAck { kind: k, id, err: false, defer: false, nomatch: false });
                    if k == AckKind::Pubrec && al.defer_pubrel && !m.auto_pub && m.ids.get(&id) == Some(&Owner::Pub2) {
                        v.push(Act::PAck { kind: k, id, err: false, defer: true, nomatch: false });
                    }
                    if al.peer_ack_err && self.v5() && matches!(k, AckKind::Puback | AckKind::Pubrec) {
                        v.push(Act::PAck { kind: k, id, err: true, defer: false, nomatch: false });
                        // success-class reason code other than 0x00 ("No matching subscribers")
                        v.push(Act::PAck { kind: k, id, err: false, defer: false, nomatch: true });
                    }
                    // PUBREL / PUBCOMP with reason code 0x92 (Packet Identifier not found): they still
                    // complete / release the exchange they name
                    if al.peer_ack_err && self.v5() && matches!(k, AckKind::Pubrel | AckKind::Pubcomp) {
                        v.push(Act::PAck { kind: k, id, err: true, defer: false, nomatch: false });
                    }
                }
            }
            if al.peer_sub {
                if !m.as_client {
                    v.push(Act::PSub(1));
                    v.push(Act::PUnsub(1));
                } else {
                    for &id in &al.peer_ack_ids {
                        v.push(Act::PSuback(id));
                        v.push(Act::PUnsuback(id));
                    }
                }
            }
            if al.peer_ping {
                v.push(if m.as_client { Act::PPingresp } else { Act::PPingreq });
                // role Any has no receive gating: a stray PINGRESP reaching its server side is a packet it accepts
                if !m.as_client && self.cfg.role == RoleK::Any {
                    v.push(Act::PPingresp);
                }
            }
            if al.peer_disconnect && (!m.as_client || self.v5()) {
                v.push(Act::PDisconnect);
                // (only a client may put a Session Expiry Interval into DISCONNECT [MQTT-3.14.2-2]; a server that
                // sends one anyway is "the peer may send any bytes": it decides nothing about the client's session)
                if al.disconnect_expiry0 && self.v5() {
                    v.push(Act::PDisconnectExpiry0);
                    v.push(Act::PDisconnectKeep);
                }
            }
            if al.peer_auth && self.v5() {
                v.push(Act::PAuth);
            }
            if al.partial && m.partials < c.max_partials && !m.partial_pending {
                v.push(Act::PPartial(1));
                v.push(Act::PPartial(3));
            }
        }
        v
    }

    fn probes(&self) -> Vec<Act> {
        let m = &self.m;
        let mut v: Vec<Act> = vec![];
        if self.cfg.alph.regulate && self.v5() {
            for a in 1..=3u16 {
                v.push(Act::Regulate { t: None, a });
                v.push(Act::Regulate { t: Some(0), a });
            }
        }
        if self.cfg.alph.send_probes && !m.close_pending && (m.ver.is_some() || self.cfg.ver.is_some()) {
            for i in 0..crate::props::c11::probe_kinds().len() {
                v.push(Act::SendProbe(i as u8));
            }
        }
        if self.cfg.stimuli.is_empty() || m.close_pending || m.partial_pending {
            return v;
        }
        v.extend((0..self.cfg.stimuli.len()).map(|i| Act::PRaw(i as u16)));
        v
    }

    fn label(a: &Act) -> String {
        format!("{a:?}")
    }

    fn step(&mut self, a: &Act, out: &mut StepOut) {
        if let Act::PRaw(i) = a {
            return self.step_raw(*i as usize, out);
        }
        if let Act::SendProbe(i) = a {
            return self.step_send_probe(*i as usize, out);
        }
        if let Act::Regulate { t, a: alias } = a {
            // regulate_for_store: the copy that would be stored carries the full topic and no alias;
            // an alias the receiver does not know on this connection cannot be regulated
            let ap = self.publish_ap(1, t.unwrap_or(0), if t.is_some() { Al::Reg(*alias) } else { Al::Use(*alias) }, Some(1), false);
            let got = self.conn.regulate_for_store(&ap);
            let mut rules = Rules { out, cfg: self.cfg.clone(), act: a.clone() };
            let expect: Option<Vec<u8>> = match t {
                Some(i) => Some(TOPICS[*i as usize].to_vec()),
                None => self.m.peer_alias.get(alias).cloned(),
            };
            // a binding the library created itself (auto-map) is its own business: only bindings the
            // application registered, and the absence of any binding, are judged
            let app_registered = t.is_some() || self.m.app_alias.contains_key(alias);
            if expect.is_some() && !app_registered {
                rules.label("c13.regulate-not-judged");
                return;
            }
            match (&got, &expect) {
                (Ok(AP::Publish { topic, props, .. }), Some(want)) => {
                    rules.label("c13.regulate-ok");
                    if topic != want || props.iter().any(|p| p.id == 0x23) {
                        let m = self.m.clone();
                        rules.viol("c13.regulate", &m, format!("regulate_for_store must yield the full topic {:?} and no alias, got topic {:?} props {:?}", String::from_utf8_lossy(want), String::from_utf8_lossy(topic), props));
                    }
                }
                (Err(_), None) => rules.label("c13.regulate-refused"),
                (g, w) => {
                    let m = self.m.clone();
                    rules.viol("c13.regulate", &m, format!("regulate_for_store(empty topic + alias {alias}): got {:?}, the receiver's binding on this connection is {:?}", g.as_ref().map(crate::conn::ap_short), w.as_ref().map(|x| String::from_utf8_lossy(x).to_string())));
                }
            }
            return;
        }
        crate::rules::reset();
        let pre = self.conn.snap();
        let pre_m = self.m.clone();
        let mut calls: Vec<Call> = vec![];
        let ver = self.ver();
        match a {
            Act::Connect(i) => {
                let ap = self.cfg.connects[*i as usize].ap(ver);
                calls.push(self.lib_send(&ap));
            }
            Act::Connack(i) => {
                let mut prof = self.cfg.connacks[*i as usize].clone();
                // contract: the server application never says "session present" after a clean start
                prof.sp = prof.sp && !self.m.clean_start;
                let ap = prof.ap(ver);
                calls.push(self.lib_send(&ap));
            }
            Act::Pub { q, t, al, fail } => {
                let id = if *q > 0 {
                    let r = self.conn.acquire();
                    calls.push(Call { kind: CallKind::Acquire(r), evs: vec![] });
                    r.ok()
                } else {
                    None
                };
                if *q == 0 || id.is_some() {
                    let ap = self.publish_ap(*q, *t, *al, id, false);
                    let c = self.lib_send(&ap);
                    let rel = c.evs.iter().find_map(|e| if let Ev::Send { rel, .. } = e { Some(*rel) } else { None });
                    let sent = rel.is_some();
                    calls.push(c);
                    if *fail && sent {
                        // transport write failed: release if told to, then treat the transport as broken
                        if let Some(Some(r)) = rel {
                            let evs = self.conn.release(r);
                            calls.push(Call { kind: CallKind::Release(r), evs });
                        }
                        self.m.send_fails += 1;
                        self.m.close_pending = true;
                    }
                }
            }
            Act::PubReg { q, id } => {
                let r = self.conn.register(*id);
                let ok = r.is_ok();
                calls.push(Call { kind: CallKind::Register(*id, r), evs: vec![] });
                if ok {
                    let ap = self.publish_ap(*q, 0, Al::No, Some(*id), false);
                    let c = self.lib_send(&ap);
                    calls.push(c);
                }
            }
            Act::Sub { fail } => {
                let r = self.conn.acquire();
                calls.push(Call { kind: CallKind::Acquire(r), evs: vec![] });
                if let Ok(id) = r {
                    let ap = AP::Subscribe { ver, pid: id, props: vec![], entries: vec![(b"f".to_vec(), 0)] };
                    let c = self.lib_send(&ap);
                    let rel = c.evs.iter().find_map(|e| if let Ev::Send { rel, .. } = e { Some(*rel) } else { None });
                    calls.push(c);
                    if *fail && rel.is_some() {
                        if let Some(Some(r)) = rel {
                            let evs = self.conn.release(r);
                            calls.push(Call { kind: CallKind::Release(r), evs });
                        }
                        self.m.send_fails += 1;
                        self.m.close_pending = true;
                    }
                }
            }
            Act::Unsub => {
                let r = self.conn.acquire();
                calls.push(Call { kind: CallKind::Acquire(r), evs: vec![] });
                if let Ok(id) = r {
                    let ap = AP::Unsubscribe { ver, pid: id, props: vec![], filters: vec![b"f".to_vec()] };
                    calls.push(self.lib_send(&ap));
                }
            }
            Act::Pubrel(id) => {
                self.m.owed_rel.remove(id);
                calls.push(self.lib_send(&AP::Ack { ver, kind: AckKind::Pubrel, pid: *id, code: None, props: None }));
            }
            Act::Pingreq => calls.push(self.lib_send(&AP::Pingreq { ver })),
            Act::Disconnect => calls.push(self.lib_send(&AP::Disconnect { ver, code: None, props: None })),
            Act::DisconnectExpiry0 => calls.push(self.lib_send(&AP::Disconnect { ver, code: Some(0), props: Some(vec![Prop { id: 0x11, val: PVal::U32(0) }]) })),
            Act::DisconnectKeep => calls.push(self.lib_send(&AP::Disconnect { ver, code: Some(0), props: Some(vec![Prop { id: 0x11, val: PVal::U32(100) }]) })),
            Act::Auth => {
                let ap = if self.cfg.auth_method { AP::Auth { code: Some(0x18), props: Some(vec![Prop { id: 0x15, val: PVal::Str(b"m".to_vec()) }]) } } else { AP::Auth { code: None, props: None } };
                calls.push(self.lib_send(&ap))
            }
            Act::Timer(k) => {
                self.m.timer_fires += 1;
                let evs = self.conn.notify_timer_fired(*k);
                calls.push(Call { kind: CallKind::Timer(*k), evs });
            }
            Act::Closed => {
                let evs = self.conn.notify_closed();
                calls.push(Call { kind: CallKind::Closed, evs });
            }
            Act::SetInterval(i) => {
                let d = self.cfg.alph.set_interval[*i as usize];
                let evs = self.conn.set_pingreq_send_interval(d);
                calls.push(Call { kind: CallKind::SetInterval(d), evs });
            }
            Act::SetPingrespTo(i) => {
                let d = self.cfg.alph.set_pingresp_to[*i as usize];
                self.conn.set_pingresp_recv_timeout(d);
                calls.push(Call { kind: CallKind::SetPingrespTo(d), evs: vec![] });
            }
            Act::ToggleOpt(k) => {
                let v = if *k == 0 { !self.m.auto_pub } else { !self.m.offline };
                if *k == 0 {
                    self.conn.set_auto_pub_response(v);
                } else {
                    self.conn.set_offline_publish(v);
                }
                calls.push(Call { kind: CallKind::SetOpt(*k, v), evs: vec![] });
            }
            Act::Erase(id) => {
                let evs = self.conn.erase_stored_publish(*id);
                calls.push(Call { kind: CallKind::Erase(*id), evs });
            }
            Act::Acquire => {
                let r = self.conn.acquire();
                calls.push(Call { kind: CallKind::Acquire(r), evs: vec![] });
            }
            Act::Register(v) => {
                let r = self.conn.register(*v);
                calls.push(Call { kind: CallKind::Register(*v, r), evs: vec![] });
            }
            Act::Release(v) => {
                let evs = self.conn.release(*v);
                calls.push(Call { kind: CallKind::Release(*v), evs });
            }
            Act::PPartial(k) => {
                let ap = self.publish_ap(0, 0, Al::No, None, false);
                let f = rc::encode(&ap, P::W);
                let part = f[..(*k as usize).min(f.len() - 1)].to_vec();
                let (lists, _) = self.conn.recv_all(&part);
                self.m.partials += 1;
                self.m.partial_pending = true;
                self.m.link_up = true;
                for evs in lists {
                    calls.push(Call { kind: CallKind::RecvPartial(part.clone()), evs });
                }
            }
            _ => {
                // peer frame
                let ap = self.peer_frame(a).expect("peer frame");
                if let AP::Connect { ver: v, .. } = &ap {
                    if self.m.ver.is_none() {
                        // remembered for encoding; adoption itself is judged by the c17 rules
                        let _ = v;
                    }
                }
                let frame = rc::encode(&ap, P::W);
                let rep_err: u8 = if let Act::PPub { rep, .. } = a { *rep } else { 0 };
                let defer = matches!(a, Act::PAck { defer: true, .. });
                self.m.link_up = true;
                let rcalls = self.lib_recv_frame(frame, Some(ap));
                for c in rcalls {
                    calls.push(c);
                }
                // application replies (manual mode) are part of the same application step
                let snapshot: Vec<Call> = calls.clone();
                // model must see recv effects (status) before replies are generated: replies only
                // depend on configuration and on what was notified
                for c in &snapshot {
                    if matches!(c.kind, CallKind::Recv { .. }) {
                        self.app_replies(c, rep_err, defer, &mut calls);
                    }
                }
            }
        }
        // ---- reference model + rules, call by call
        let mut rules = Rules { out, cfg: self.cfg.clone(), act: a.clone() };
        for c in &calls {
            rules.out.say(|| c.describe());
            crate::rules::observe(&mut self.m, c, &mut rules, P::W);
        }
        let post = self.conn.snap();
        crate::rules::after_step(&mut self.m, &pre_m, &pre, &post, &calls, &self.conn, &mut rules);
    }

    fn key(&self) -> u128 {
        crate::util::fp128(&(self.conn.snap(), &self.m))
    }

    fn sig_label(&self, a: &Act) -> String {
        act_sig(&self.cfg, a)
    }
}

/// abstract action label for signatures; raw stimuli are named by their class (mutations of one
/// seed share a class)
pub fn act_sig(cfg: &EpCfg, a: &Act) -> String {
    match a {
        Act::PRaw(i) => {
            let l = cfg.stimuli.get(*i as usize).map(|s| s.0.as_str()).unwrap_or("?");
            let (base, mutated) = match l.split_once(" ~") {
                Some((b, _)) => (b, true),
                None => (l, false),
            };
            let base = if base.starts_with("raw ") { "raw-prefix" } else { base };
            format!("PRaw({}{})", base, if mutated { " ~mutated" } else { "" })
        }
        // a CONNACK that carries a Session Expiry Interval is its own class of input
        Act::PConnack(i) | Act::Connack(i) => match cfg.connacks.get(*i as usize).and_then(|p| p.sei) {
            Some(v) => format!("{}(sei={})", act_kind(a), if v == 0 { "0" } else { ">0" }),
            None => act_kind(a),
        },
        _ => act_kind(a),
    }
}

/// Rule reporting context handed to the rule functions.
pub struct Rules<'a> {
    pub out: &'a mut StepOut,
    pub cfg: Arc<EpCfg>,
    pub act: Act,
}
impl<'a> Rules<'a> {
    /// report a violation of rule `rule` (its property group is the prefix before the first dot)
    pub fn viol(&mut self, rule: &str, m: &Mdl, detail: String) {
        let group = rule.split('.').next().unwrap_or("");
        if !self.cfg.on(group) {
            return;
        }
        let sig = format!("{}|{}|v{}|{:?}|{}", rule, act_sig(&self.cfg, &self.act), m.ver.map(|v| v.level()).unwrap_or(0), m.st, if m.as_client { "client" } else { "server" });
        self.out.viol(rule, sig, format!("[{}] {}", self.cfg.name, detail));
    }
    /// like `viol` but with a caller-supplied signature (coarser or finer than the default)
    pub fn viol_sig(&mut self, rule: &str, sig: String, m: &Mdl, detail: String) {
        let group = rule.split('.').next().unwrap_or("");
        if !self.cfg.on(group) {
            return;
        }
        let _ = m;
        self.out.viol(rule, sig, format!("[{}] {}", self.cfg.name, detail));
    }
    pub fn label(&mut self, l: &'static str) {
        self.out.label(l);
    }
}

pub fn snapshot_session_scope(s: &VerifState) -> (Vec<(u64, u64)>, Vec<u64>, Vec<u64>, Vec<u64>, Vec<Vec<u8>>, Vec<u64>) {
    (s.pid_free.clone(), s.pid_puback.clone(), s.pid_pubrec.clone(), s.pid_pubcomp.clone(), s.store.clone(), s.qos2_publish_handled.clone())
}
