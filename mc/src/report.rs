//! Violations, known findings, replay artefacts and evidence files.
use serde_json::{json, Value};
use std::collections::BTreeMap;
use std::path::PathBuf;

pub fn verif_root() -> PathBuf {
    std::env::var("VERIF_ROOT")
        .map(PathBuf::from)
        .unwrap_or_else(|_| PathBuf::from("/verif"))
}

#[derive(Clone, Debug)]
pub struct Violation {
    /// rule id inside the property's oracle, e.g. "store.a-dropped"
    pub rule: String,
    /// stable abstract signature (rule + abstract labels); used for known-finding matching
    pub sig: String,
    /// human-readable detail of this concrete instance
    pub detail: String,
    /// engine / configuration name
    pub config: String,
    /// the replayable history (labels, with indices where the engine needs them)
    pub history: Vec<Value>,
}

#[derive(Clone, Debug)]
pub struct KnownFinding {
    pub property: String,
    pub signature: String,
    pub status: String,
    pub what: String,
}

pub fn load_known_findings() -> Vec<KnownFinding> {
    let p = verif_root().join("known_findings.json");
    let Ok(s) = std::fs::read_to_string(&p) else {
        return vec![];
    };
    let v: Value = serde_json::from_str(&s).expect("known_findings.json must be valid JSON");
    v["findings"]
        .as_array()
        .cloned()
        .unwrap_or_default()
        .iter()
        .map(|e| KnownFinding {
            property: e["property"].as_str().unwrap_or("").to_string(),
            signature: e["signature"].as_str().unwrap_or("").to_string(),
            status: e["status"].as_str().unwrap_or("").to_string(),
            what: e["what"].as_str().unwrap_or("").to_string(),
        })
        .collect()
}

/// Collects everything one check run produces and turns it into stdout lines, replay files, an
/// evidence file and an exit code.
pub struct Report {
    pub prop: String,
    pub tier: String,
    pub level: String,
    pub violations: Vec<Violation>,
    pub coverage: serde_json::Map<String, Value>,
    pub assumptions: Vec<String>,
    pub counters: BTreeMap<String, u64>,
    pub floors: Vec<(String, u64)>,
    pub machinery_errors: Vec<String>,
    pub configs: Vec<Value>,
    pub samples: Vec<Value>,
    clock: crate::util::Clock,
}

impl Report {
    pub fn new(prop: &str, tier: &str, level: &str) -> Self {
        Report {
            prop: prop.to_string(),
            tier: tier.to_string(),
            level: level.to_string(),
            violations: vec![],
            coverage: serde_json::Map::new(),
            assumptions: vec![],
            counters: BTreeMap::new(),
            floors: vec![],
            machinery_errors: vec![],
            configs: vec![],
            samples: vec![],
            clock: crate::util::Clock::start(),
        }
    }
    pub fn secs(&self) -> f64 {
        self.clock.secs()
    }
    pub fn thorough(&self) -> bool {
        self.tier == "thorough"
    }
    pub fn count(&mut self, k: &str, n: u64) {
        *self.counters.entry(k.to_string()).or_insert(0) += n;
    }
    pub fn merge_counters(&mut self, c: &BTreeMap<String, u64>) {
        for (k, v) in c {
            *self.counters.entry(k.clone()).or_insert(0) += v;
        }
    }
    /// Anti-vacuity floor: counter `k` must reach `min` or the run is a machinery failure.
    pub fn floor(&mut self, k: &str, min: u64) {
        self.floors.push((k.to_string(), min));
    }
    pub fn add_cov(&mut self, k: &str, n: u64) {
        let cur = self.coverage.get(k).and_then(|v| v.as_u64()).unwrap_or(0);
        self.coverage.insert(k.to_string(), json!(cur + n));
    }
    pub fn set_cov(&mut self, k: &str, v: Value) {
        self.coverage.insert(k.to_string(), v);
    }
    pub fn sample(&mut self, v: Value) {
        if self.samples.len() < 12 {
            self.samples.push(v);
        }
    }
    pub fn assume(&mut self, s: &str) {
        if !self.assumptions.iter().any(|x| x == s) {
            self.assumptions.push(s.to_string());
        }
    }
    pub fn violation(&mut self, v: Violation) {
        // keep the first (shortest, BFS) instance per signature
        if !self.violations.iter().any(|x| x.sig == v.sig) {
            self.violations.push(v);
        }
    }

    /// Write replay files, print VIOLATION / KNOWN-FINDING lines, write evidence, return exit code.
    pub fn finish(mut self) -> i32 {
        let root = verif_root();
        let known = load_known_findings();
        let mut unknown = 0usize;
        let mut known_hit: Vec<String> = vec![];
        std::fs::create_dir_all(root.join("replays")).ok();
        let mut viol_json = vec![];
        let violations = std::mem::take(&mut self.violations);
        for v in &violations {
            let is_known = known
                .iter()
                .find(|k| k.property == self.prop && k.status == "open" && k.signature == v.sig);
            let h = crate::util::fp128(&v.sig) as u32;
            let rule_s: String = v
                .rule
                .chars()
                .map(|c| if c.is_ascii_alphanumeric() { c } else { '_' })
                .collect();
            let path = root
                .join("replays")
                .join(format!("{}-{}-{:08x}.json", self.prop, rule_s, h));
            let doc = json!({
                "property": self.prop, "rule": v.rule, "signature": v.sig, "detail": v.detail,
                "config": v.config, "history": v.history,
            });
            // replay artefacts of known findings are committed; do not rewrite them needlessly
            let _ = std::fs::write(&path, serde_json::to_string_pretty(&doc).unwrap() + "\n");
            viol_json.push(json!({"rule": v.rule, "signature": v.sig, "detail": v.detail,
                "config": v.config, "replay": path.to_string_lossy(), "known": is_known.is_some()}));
            match is_known {
                Some(k) => {
                    if !known_hit.contains(&k.signature) {
                        known_hit.push(k.signature.clone());
                        println!("KNOWN-FINDING: property={} {} [{}]", self.prop, k.what, k.signature);
                    }
                }
                None => {
                    unknown += 1;
                    println!("VIOLATION property={} replay={}", self.prop, path.to_string_lossy());
                    println!("  rule={} signature={}", v.rule, v.sig);
                    println!("  detail: {}", v.detail);
                }
            }
        }
        // remove stale replay artefacts of this property (earlier runs), keep the ones this run wrote
        // and the ones known_findings.json refers to as documentation
        let keep: Vec<String> = viol_json.iter().filter_map(|v| v["replay"].as_str().map(|s| s.to_string())).collect();
        let kf_text = std::fs::read_to_string(root.join("known_findings.json")).unwrap_or_default();
        if let Ok(rd) = std::fs::read_dir(root.join("replays")) {
            for e in rd.flatten() {
                let name = e.file_name().to_string_lossy().to_string();
                let full = e.path().to_string_lossy().to_string();
                if name.starts_with(&format!("{}-", self.prop)) && !keep.contains(&full) && !kf_text.contains(&name) {
                    let _ = std::fs::remove_file(e.path());
                }
            }
        }
        // floors
        for (k, min) in &self.floors {
            let got = self.counters.get(k).copied().unwrap_or(0);
            if got < *min {
                self.machinery_errors
                    .push(format!("anti-vacuity floor missed: {k} = {got} < {min}"));
            }
        }
        let mut cov = std::mem::take(&mut self.coverage);
        if !self.samples.is_empty() {
            cov.insert("samples".into(), Value::Array(self.samples.clone()));
        }
        cov.insert(
            "counters".into(),
            Value::Object(self.counters.iter().map(|(k, v)| (k.clone(), json!(v))).collect()),
        );
        cov.insert("configurations".into(), Value::Array(self.configs.clone()));
        cov.insert("violation_list".into(), Value::Array(viol_json));
        cov.insert("known_findings_matched".into(), json!(known_hit));
        cov.insert("machinery_errors".into(), json!(self.machinery_errors));
        if let Ok(s) = std::env::var("VERIF_SSO_SUMMARY") {
            if !s.trim().is_empty() {
                cov.insert("sso_feature_builds".into(), json!(s.trim()));
            }
        }
        let ev = json!({
            "property_id": self.prop,
            "tier": self.tier,
            "seed": crate::util::seed(),
            "level": self.level,
            "coverage": Value::Object(cov),
            "assumptions": self.assumptions,
            "wall_s": (self.clock.secs() * 1000.0).round() / 1000.0,
            "violations": unknown as i64,
        });
        std::fs::create_dir_all(root.join("evidence")).ok();
        let evp = root.join("evidence").join(format!("{}.json", self.prop));
        std::fs::write(&evp, serde_json::to_string_pretty(&ev).unwrap() + "\n")
            .expect("cannot write evidence file");
        for e in &self.machinery_errors {
            eprintln!("MACHINERY-ERROR property={} {}", self.prop, e);
        }
        let code = if unknown > 0 {
            1
        } else if !self.machinery_errors.is_empty() {
            3
        } else {
            0
        };
        println!(
            "[{}] tier={} level={} violations={} known={} wall={:.1}s exit={}",
            self.prop,
            self.tier,
            self.level,
            unknown,
            known_hit.len(),
            self.clock.secs(),
            code
        );
        code
    }
}
