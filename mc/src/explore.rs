//! Generic explicit-state explorer over *real* objects.
//!
//! A `World` bundles the real library object(s) with the application model and the reference
//! monitors. A transition clones the world and performs one real API call sequence (`step`).
//! States are deduplicated on `key()` (a fingerprint of the canonical snapshot of every field of
//! the real object plus monitor/app state). Search is level-synchronous parallel BFS, so the
//! first counterexample per signature is a shortest one. `probes()` are one-step stimuli that are
//! executed and checked from every reachable state but whose successors are not explored further
//! (the "reach x stimulus" scheme of DESIGN §2.3).
use crate::report::{Report, Violation};
use crate::util::guarded;
use serde_json::json;
use std::collections::{BTreeMap, HashMap};

pub struct StepOut {
    /// (rule, signature, detail)
    pub violations: Vec<(String, String, String)>,
    /// coverage counters / anti-vacuity labels fired by this step
    pub labels: Vec<&'static str>,
    /// textual log of what the step did (events), only filled when `verbose`
    pub log: Vec<String>,
    pub verbose: bool,
    /// do not enqueue the successor (set automatically on violation)
    pub prune: bool,
}
impl StepOut {
    pub fn new(verbose: bool) -> Self {
        StepOut { violations: vec![], labels: vec![], log: vec![], verbose, prune: false }
    }
    pub fn viol(&mut self, rule: &str, sig: String, detail: String) {
        self.violations.push((rule.to_string(), sig, detail));
    }
    pub fn label(&mut self, l: &'static str) {
        self.labels.push(l);
    }
    pub fn say(&mut self, f: impl FnOnce() -> String) {
        if self.verbose {
            self.log.push(f());
        }
    }
}

pub trait World: Clone + Send + Sync {
    type Act: Clone + Send + Sync + std::fmt::Debug;
    fn enabled(&self) -> Vec<Self::Act>;
    /// one-step stimuli fired from every reachable state; successors are not explored
    fn probes(&self) -> Vec<Self::Act> {
        vec![]
    }
    fn step(&mut self, a: &Self::Act, out: &mut StepOut);
    fn key(&self) -> u128;
    fn label(a: &Self::Act) -> String {
        format!("{a:?}")
    }
    /// abstract form of an action used inside violation signatures (no concrete ids / values)
    fn sig_label(&self, a: &Self::Act) -> String {
        Self::label(a)
    }
    /// edges of this class are recorded when the explorer is asked to (termination analysis)
    fn is_delivery(_a: &Self::Act) -> bool {
        false
    }
    /// invariant evaluated on every newly discovered state (after `step`)
    fn check_state(&self, _out: &mut StepOut) {}
}

#[derive(Clone, Debug, Default)]
pub struct Limits {
    pub max_depth: usize,
    pub max_states: usize,
    pub wall_s: f64,
    pub rss_mb: u64,
}
impl Limits {
    pub fn new(max_depth: usize, max_states: usize, wall_s: f64) -> Self {
        Limits { max_depth, max_states, wall_s, rss_mb: 20_000 }
    }
}

#[derive(Debug, Default, Clone)]
pub struct Stats {
    pub states: u64,
    pub transitions: u64,
    pub probes: u64,
    pub max_depth: usize,
    pub closed: bool,
    pub cap_hit: Option<String>,
    pub pruned: u64,
    pub level_sizes: Vec<usize>,
    pub labels: BTreeMap<String, u64>,
    pub deepest: Vec<String>,
    pub wall_s: f64,
}

struct Node<A> {
    parent: u32,
    act: Option<A>,
}

struct Cand<W: World> {
    parent: u32,
    act: W::Act,
    key: u128,
    world: Option<W>,
    viols: Vec<(String, String, String)>,
    labels: Vec<&'static str>,
    is_probe: bool,
}

pub struct Explorer<'a, W: World> {
    pub config: String,
    pub limits: Limits,
    pub report: &'a mut Report,
    /// keep every distinct reachable world (for second-phase differential checks)
    pub keep_worlds: bool,
    pub kept: Vec<W>,
    /// histories (action lists) of every kept world, parallel to `kept`
    pub kept_hist: Vec<Vec<W::Act>>,
    /// thorough-tier merge audit: one-step bisimulation check on the first merge per key
    pub merge_audit: bool,
    pub audit_count: u64,
    /// record (from, to) state ids of every `is_delivery` transition
    pub record_delivery_edges: bool,
    pub delivery_edges: Vec<(u32, u32)>,
}

impl<'a, W: World> Explorer<'a, W> {
    pub fn new(config: &str, limits: Limits, report: &'a mut Report) -> Self {
        Explorer {
            config: config.to_string(),
            limits,
            report,
            keep_worlds: false,
            kept: vec![],
            kept_hist: vec![],
            merge_audit: false,
            audit_count: 0,
            record_delivery_edges: false,
            delivery_edges: vec![],
        }
    }

    fn history(nodes: &[Node<W::Act>], mut id: u32) -> Vec<W::Act> {
        let mut h = vec![];
        while id != u32::MAX {
            let n = &nodes[id as usize];
            if let Some(a) = &n.act {
                h.push(a.clone());
            }
            id = n.parent;
        }
        h.reverse();
        h
    }

    pub fn run(&mut self, init: W) -> Stats {
        let clock = crate::util::Clock::start();
        let rss_base = crate::util::rss_mb();
        let mut stats = Stats::default();
        let mut seen: HashMap<u128, u32> = HashMap::new();
        let mut nodes: Vec<Node<W::Act>> = vec![];
        let mut audited: std::collections::HashSet<u128> = std::collections::HashSet::new();
        let init0 = init.clone();
        let audit_cap: u64 = 3000;
        let k0 = init.key();
        seen.insert(k0, 0);
        nodes.push(Node { parent: u32::MAX, act: None });
        let mut frontier: Vec<(u32, W)> = vec![(0, init.clone())];
        if self.keep_worlds {
            self.kept.push(init);
            self.kept_hist.push(vec![]);
        }
        stats.states = 1;
        let mut depth = 0usize;
        stats.level_sizes.push(1);
        'outer: while !frontier.is_empty() {
            if depth >= self.limits.max_depth {
                stats.cap_hit = Some(format!("max_depth={} (frontier {} states unexpanded)", self.limits.max_depth, frontier.len()));
                break;
            }
            // expand this level in parallel, a slice of the frontier at a time (all successors of a wide level
            // at once would be many times the size of the level itself); slices are taken and merged in
            // frontier order, so the search order and the result are those of the unsliced level
            let mut next: Vec<(u32, W)> = vec![];
            const SLICE: usize = 32_768;
            let mut lo = 0usize;
            while lo < frontier.len() {
            let hi = (lo + SLICE).min(frontier.len());
            let fr = &frontier[lo..hi];
            lo = hi;
            let cands: Vec<Vec<Cand<W>>> = crate::util::par_map(fr.len(), |i| {
                let (id, w) = &fr[i];
                let mut out = vec![];
                let acts = w.enabled();
                let probes = w.probes();
                for (is_probe, a) in acts.iter().map(|a| (false, a)).chain(probes.iter().map(|a| (true, a))) {
                    let mut w2 = w.clone();
                    let mut so = StepOut::new(false);
                    let r = guarded(|| {
                        w2.step(a, &mut so);
                        if so.violations.is_empty() && !is_probe {
                            w2.check_state(&mut so);
                        }
                    });
                    if let Err(msg) = r {
                        so.violations.push((
                            "panic".into(),
                            format!("panic|{}|{}", crate::util::panic_sig(&msg), w.sig_label(a)),
                            format!("panic: {msg}"),
                        ));
                    }
                    let bad = !so.violations.is_empty();
                    let keep = !bad && !is_probe && !so.prune;
                    let key = if keep { w2.key() } else { 0 };
                    out.push(Cand {
                        parent: *id,
                        act: a.clone(),
                        key,
                        world: if keep { Some(w2) } else { None },
                        viols: so.violations,
                        labels: so.labels,
                        is_probe,
                    });
                }
                out
            });
            // merge sequentially (deterministic order)
            for c in cands.into_iter().flatten() {
                if c.is_probe {
                    stats.probes += 1;
                } else {
                    stats.transitions += 1;
                }
                for l in &c.labels {
                    *stats.labels.entry((*l).to_string()).or_insert(0) += 1;
                }
                if !c.viols.is_empty() {
                    stats.pruned += 1;
                    let mut hist = Self::history(&nodes, c.parent);
                    hist.push(c.act.clone());
                    for (rule, sig, detail) in c.viols {
                        if !self.report.violations.iter().any(|v| v.sig == sig) {
                            self.report.violation(Violation {
                                rule,
                                sig,
                                detail,
                                config: self.config.clone(),
                                history: hist.iter().map(|a| json!(W::label(a))).collect(),
                            });
                        }
                    }
                    continue;
                }
                let Some(w) = c.world else { continue };
                if self.record_delivery_edges && W::is_delivery(&c.act) {
                    let target = seen.get(&c.key).copied().unwrap_or(nodes.len() as u32);
                    self.delivery_edges.push((c.parent, target));
                }
                match seen.get(&c.key) {
                    Some(&existing) => {
                        if self.merge_audit && self.audit_count < audit_cap && audited.insert(c.key) {
                            self.audit_count += 1;
                            // one-step bisimulation: the world reached through the first history
                            // and this one must offer the same actions with the same observable
                            // logs and successor keys
                            let h_old = Self::history(&nodes, existing);
                            let mut w_old = init0.clone();
                            let mut ok = true;
                            for a in &h_old {
                                let mut so = StepOut::new(false);
                                if guarded(|| w_old.step(a, &mut so)).is_err() {
                                    ok = false;
                                    break;
                                }
                            }
                            if ok {
                                let la: Vec<String> = w_old.enabled().iter().map(|a| W::label(a)).collect();
                                let acts_new = w.enabled();
                                let lb: Vec<String> = acts_new.iter().map(|a| W::label(a)).collect();
                                let mut diff: Option<String> = None;
                                if la != lb {
                                    diff = Some(format!("enabled sets differ: {la:?} vs {lb:?}"));
                                } else {
                                    for a in &acts_new {
                                        let mut w1 = w_old.clone();
                                        let mut w2 = w.clone();
                                        let mut s1 = StepOut::new(true);
                                        let mut s2 = StepOut::new(true);
                                        let r1 = guarded(|| w1.step(a, &mut s1)).is_ok();
                                        let r2 = guarded(|| w2.step(a, &mut s2)).is_ok();
                                        if r1 != r2 || s1.log != s2.log || (r1 && w1.key() != w2.key()) {
                                            diff = Some(format!("after {}: logs {:?} vs {:?}", W::label(a), s1.log, s2.log));
                                            break;
                                        }
                                    }
                                }
                                if let Some(d) = diff {
                                    let mut h_new = Self::history(&nodes, c.parent);
                                    h_new.push(c.act.clone());
                                    self.report.machinery_errors.push(format!(
                                        "merge audit failed in {}: histories {:?} and {:?} share a key but differ: {}",
                                        self.config,
                                        h_old.iter().map(|a| W::label(a)).collect::<Vec<_>>(),
                                        h_new.iter().map(|a| W::label(a)).collect::<Vec<_>>(),
                                        d
                                    ));
                                }
                            }
                        }
                    }
                    None => {
                        let id = nodes.len() as u32;
                        seen.insert(c.key, id);
                        nodes.push(Node { parent: c.parent, act: Some(c.act) });
                        stats.states += 1;
                        if self.keep_worlds {
                            self.kept.push(w.clone());
                            self.kept_hist.push(Self::history(&nodes, id));
                        }
                        next.push((id, w));
                        if stats.states as usize >= self.limits.max_states {
                            stats.cap_hit = Some(format!("max_states={}", self.limits.max_states));
                            break 'outer;
                        }
                        // memory is also looked at inside a level (a single wide level can add many GB)
                        if stats.states % 16_384 == 0 && crate::util::rss_mb() > rss_base + self.limits.rss_mb {
                            stats.cap_hit = Some(format!("rss>{}MB at depth {}", self.limits.rss_mb, depth));
                            break 'outer;
                        }
                    }
                }
            }
            if clock.secs() > self.limits.wall_s * 1.5 && lo < frontier.len() {
                stats.cap_hit = Some(format!("wall={}s inside depth {}", self.limits.wall_s, depth));
                break 'outer;
            }
            }
            depth += 1;
            if !next.is_empty() {
                stats.level_sizes.push(next.len());
                stats.max_depth = depth;
            }
            frontier = next;
            if clock.secs() > self.limits.wall_s {
                if !frontier.is_empty() {
                    stats.cap_hit = Some(format!("wall={}s at depth {}", self.limits.wall_s, depth));
                }
                break;
            }
            if crate::util::rss_mb() > rss_base + self.limits.rss_mb {
                if !frontier.is_empty() {
                    stats.cap_hit = Some(format!("rss>{}MB at depth {}", self.limits.rss_mb, depth));
                }
                break;
            }
        }
        stats.closed = stats.cap_hit.is_none();
        // give the memory of this configuration back before the next one starts (the cap above is relative
        // to the resident size at the start of the configuration, so one large configuration cannot starve
        // those that follow it)
        drop(frontier);
        drop(seen);
        crate::util::trim_heap();
        // deepest history as a sample
        if let Some(last) = nodes.len().checked_sub(1) {
            stats.deepest = Self::history(&nodes, last as u32).iter().map(|a| W::label(a)).collect();
        }
        stats.wall_s = clock.secs();
        self.fold(&stats);
        stats
    }

    fn fold(&mut self, s: &Stats) {
        let r = &mut *self.report;
        r.add_cov("states", s.states);
        r.add_cov("transitions", s.transitions + s.probes);
        r.add_cov("probe_transitions", s.probes);
        r.add_cov("traces_validated_against_impl", s.transitions + s.probes);
        r.add_cov("pruned_violating_transitions", s.pruned);
        r.add_cov("merge_audits", self.audit_count);
        for (k, v) in &s.labels {
            r.count(k, *v);
        }
        r.configs.push(json!({
            "config": self.config,
            "states": s.states, "transitions": s.transitions, "probes": s.probes,
            "max_depth": s.max_depth, "termination": if s.closed {"closure (frontier empty: all reachable states visited)".to_string()} else {format!("bounded: {}", s.cap_hit.clone().unwrap_or_default())},
            "level_sizes": s.level_sizes, "wall_s": (s.wall_s*1000.0).round()/1000.0,
        }));
        if !s.deepest.is_empty() {
            r.sample(json!({"config": self.config, "deepest_history": s.deepest}));
        }
    }
}


/// Replay a history given as labels: at each step the action whose label matches is taken from
/// `enabled() ++ probes()`. Returns the verbose log.
pub fn replay<W: World>(init: W, labels: &[String]) -> Result<Vec<String>, String> {
    let mut w = init;
    let mut log = vec![];
    for (i, l) in labels.iter().enumerate() {
        let mut acts = w.enabled();
        acts.extend(w.probes());
        let Some(a) = acts.into_iter().find(|a| &W::label(a) == l) else {
            return Err(format!("step {i}: action {l:?} is not enabled (replay diverged)"));
        };
        let mut so = StepOut::new(true);
        let r = guarded(|| {
            w.step(&a, &mut so);
            if so.violations.is_empty() {
                w.check_state(&mut so);
            }
        });
        log.push(format!("#{i} {l}"));
        for x in &so.log {
            log.push(format!("     {x}"));
        }
        if let Err(m) = r {
            log.push(format!("     PANIC: {m}"));
            break;
        }
        for (rule, sig, detail) in &so.violations {
            log.push(format!("     VIOLATION rule={rule} sig={sig}: {detail}"));
        }
    }
    Ok(log)
}

