//! Abstract packet space: per packet kind a default value and a deviation set per field; the
//! space enumerated is all packets with at most `d` simultaneous deviations (DESIGN §2.7).
#![allow(dead_code)]
use crate::refcodec::{self as rc, AckKind, Loc, PTy, PVal, Prop, Ver, Will, AP};

pub type Dev = (String, Box<dyn Fn(&mut AP) + Send + Sync>);

pub struct Kind {
    pub name: String,
    pub base: AP,
    /// one entry per field: the alternative values (each a mutation of the base)
    pub fields: Vec<Vec<Dev>>,
}

fn s(n: usize) -> Vec<u8> {
    (0..n).map(|i| b'a' + (i % 26) as u8).collect()
}

/// boundary lengths: variable-byte-integer and two-byte-length boundaries plus the SSO sizes of
/// every feature build (12 / 24 / 48 for strings and binaries, 15 / 31 / 127 / 255 for payloads)
pub fn lengths(level: u8) -> Vec<usize> {
    if level == 0 {
        vec![0, 1, 2, 12, 13, 24, 25, 48, 49, 127, 128, 16383, 16384, 65535]
    } else {
        vec![0, 1, 2, 11, 12, 13, 14, 15, 16, 23, 24, 25, 30, 31, 32, 47, 48, 49, 126, 127, 128, 129, 254, 255, 256, 16383, 16384, 65534, 65535]
    }
}

pub fn prop_values(id: u8) -> Vec<PVal> {
    match rc::prop_type(id).unwrap() {
        PTy::U8 => vec![PVal::U8(0), PVal::U8(1)],
        PTy::U16 => vec![PVal::U16(1), PVal::U16(2), PVal::U16(255), PVal::U16(256), PVal::U16(65535)],
        PTy::U32 => vec![PVal::U32(1), PVal::U32(255), PVal::U32(256), PVal::U32(65535), PVal::U32(65536), PVal::U32(0x0100_0000), PVal::U32(u32::MAX)],
        PTy::Vbi => vec![PVal::Vbi(1), PVal::Vbi(127), PVal::Vbi(128), PVal::Vbi(16383), PVal::Vbi(16384), PVal::Vbi(2_097_151), PVal::Vbi(2_097_152), PVal::Vbi(268_435_455)],
        PTy::Str => vec![PVal::Str(b"x".to_vec()), PVal::Str(vec![]), PVal::Str(s(128)), PVal::Str(b"n\0l".to_vec())],
        PTy::Bin => vec![PVal::Bin(b"\x00\xff".to_vec()), PVal::Bin(vec![]), PVal::Bin(s(128))],
        PTy::Pair => vec![PVal::Pair(b"k".to_vec(), b"v".to_vec()), PVal::Pair(vec![], vec![]), PVal::Pair(s(13), s(128)), PVal::Pair(b"k\0".to_vec(), b"\0v".to_vec())],
    }
}

pub fn typical(id: u8) -> Prop {
    Prop { id, val: prop_values(id)[0].clone() }
}

/// property sets for a location: every single allowed property with each of its values, every
/// pair of allowed properties (typical values; the same repeatable property twice), all at once
pub fn prop_sets(loc: Loc, level: u8) -> Vec<(String, Vec<Prop>)> {
    let allowed: Vec<u8> = rc::PROP_TABLE.iter().map(|e| e.0).filter(|id| rc::prop_allowed(*id, loc)).collect();
    let mut out: Vec<(String, Vec<Prop>)> = vec![];
    for &id in &allowed {
        for v in prop_values(id) {
            out.push((format!("props=[{}:{:?}]", rc::prop_name(id), short_val(&v)), vec![Prop { id, val: v }]));
        }
    }
    for (i, &a) in allowed.iter().enumerate() {
        for &b in &allowed[i..] {
            if a == b && !rc::prop_may_repeat(a, loc) {
                continue;
            }
            if level == 0 && a != b && (i % 3 != 0) {
                continue;
            }
            out.push((format!("props=[{},{}]", rc::prop_name(a), rc::prop_name(b)), vec![typical(a), typical(b)]));
        }
    }
    let all: Vec<Prop> = allowed.iter().map(|id| typical(*id)).collect();
    if all.len() > 2 {
        out.push(("props=all-permitted".into(), all));
    }
    out
}

fn short_val(v: &PVal) -> String {
    match v {
        PVal::Str(x) | PVal::Bin(x) => format!("len{}", x.len()),
        PVal::Pair(a, b) => format!("len{}/{}", a.len(), b.len()),
        other => format!("{other:?}"),
    }
}

macro_rules! dev {
    ($label:expr, $f:expr) => {
        ($label.to_string(), Box::new($f) as Box<dyn Fn(&mut AP) + Send + Sync>)
    };
}

fn prop_field(loc: Loc, level: u8, setter: fn(&mut AP, Vec<Prop>)) -> Vec<Dev> {
    prop_sets(loc, level).into_iter().map(|(l, ps)| (l, Box::new(move |a: &mut AP| setter(a, ps.clone())) as Box<dyn Fn(&mut AP) + Send + Sync>)).collect()
}

fn set_props(a: &mut AP, ps: Vec<Prop>) {
    match a {
        AP::Connect { props, .. } | AP::Connack { props, .. } | AP::Publish { props, .. } | AP::Subscribe { props, .. } | AP::Suback { props, .. } | AP::Unsubscribe { props, .. } | AP::Unsuback { props, .. } => *props = ps,
        AP::Ack { props, code, .. } | AP::Disconnect { props, code, .. } | AP::Auth { props, code } => {
            if code.is_none() {
                *code = Some(0);
            }
            *props = Some(ps);
        }
        _ => {}
    }
}
fn set_will_props(a: &mut AP, ps: Vec<Prop>) {
    if let AP::Connect { will, .. } = a {
        if will.is_none() {
            *will = Some(Will { topic: b"w".to_vec(), payload: b"x".to_vec(), qos: 0, retain: false, props: vec![] });
        }
        will.as_mut().unwrap().props = ps;
    }
}

/// Topic Filter contents beyond plain ASCII: shared-subscription forms (well-formed, and the ill-formed
/// ones that are ordinary filters in v3.1.1), multi-byte UTF-8 in every position
pub fn special_filters() -> Vec<&'static str> {
    vec!["$share/g/t", "$share/g/#", "$share/g/+/x", "$share/+/t", "$share/#", "$share/g", "$share//x", "$share/g/", "$share/\u{e9}/t", "$share/g\u{20ac}/s/#", "$share/\u{e9}a+/t", "$share/\u{1F600}/#", "\u{e9}", "+/\u{65e5}\u{672c}/#", "\u{1F600}/+", "$SYS/#", "/", "//", "a/", "a\u{0}b", "$share/g\u{0}/t"]
}
/// Topic Name / plain string contents with multi-byte UTF-8
pub fn special_names() -> Vec<&'static str> {
    vec!["\u{e9}", "a/\u{65e5}\u{672c}", "\u{1F600}", "$share/g/t", "/", "a//b", "\u{7f}\u{80}", "a\u{0}b"]
}

/// a User Property that pads a property block to exactly `n` bytes (`extra` bytes are taken by others)
fn pad_user(n: usize, extra: usize) -> Prop {
    // id(1) + key len(2) + "k"(1) + value len(2) + value
    Prop { id: 0x26, val: PVal::Pair(b"k".to_vec(), vec![b'v'; n - extra - 6]) }
}

fn pid_field(max: u32) -> Vec<Dev> {
    // (32-bit identifiers: also values whose low half / low bytes are zero - a 16-bit view of them is 0)
    let vals: Vec<u32> = if max > 65535 { vec![2u32, 255, 256, 65535, 0x0001_0000, 0x0100_0000, 0xFFFF_0000, max] } else { vec![2u32, 255, 256, max] };
    vals.iter().map(|&v| dev!(format!("id={v}"), move |a: &mut AP| match a {
        AP::Publish { pid, qos, .. } => {
            if *qos > 0 {
                *pid = Some(v)
            }
        }
        AP::Ack { pid, .. } | AP::Subscribe { pid, .. } | AP::Suback { pid, .. } | AP::Unsubscribe { pid, .. } | AP::Unsuback { pid, .. } => *pid = v,
        _ => {}
    })).collect()
}

/// all kinds of one version; `w` = packet id width (2 or 4), `level` 0 quick / 1 thorough
pub fn kinds(ver: Ver, w: usize, level: u8) -> Vec<Kind> {
    let v5 = ver == Ver::V5;
    let max: u32 = if w == 2 { 65535 } else { u32::MAX };
    let lens = lengths(level);
    let mut out: Vec<Kind> = vec![];

    // ---- CONNECT
    {
        let base = AP::Connect { ver, clean: true, keep_alive: 0, client_id: b"c".to_vec(), will: None, user: None, pass: None, props: vec![] };
        let mut fields: Vec<Vec<Dev>> = vec![];
        fields.push(vec![dev!("clean=false", |a: &mut AP| if let AP::Connect { clean, .. } = a { *clean = false })]);
        fields.push([1u16, 255, 256, 65535].iter().map(|&k| dev!(format!("ka={k}"), move |a: &mut AP| if let AP::Connect { keep_alive, .. } = a { *keep_alive = k })).collect());
        fields.push(lens.iter().filter(|l| **l != 1).map(|&l| dev!(format!("client_id.len={l}"), move |a: &mut AP| if let AP::Connect { client_id, clean, .. } = a { *client_id = s(l); if l == 0 { *clean = true } })).collect());
        let mut wills: Vec<Dev> = vec![];
        for (q, r) in [(0u8, false), (1, true), (2, false), (2, true)] {
            wills.push(dev!(format!("will(q{q},retain={r})"), move |a: &mut AP| if let AP::Connect { will, .. } = a { *will = Some(Will { topic: b"w".to_vec(), payload: b"x".to_vec(), qos: q, retain: r, props: vec![] }) }));
        }
        for &l in &lens {
            if l > 0 {
                wills.push(dev!(format!("will.topic.len={l}"), move |a: &mut AP| if let AP::Connect { will, .. } = a { *will = Some(Will { topic: s(l), payload: b"x".to_vec(), qos: 1, retain: false, props: vec![] }) }));
            }
            wills.push(dev!(format!("will.payload.len={l}"), move |a: &mut AP| if let AP::Connect { will, .. } = a { *will = Some(Will { topic: b"w".to_vec(), payload: s(l), qos: 0, retain: false, props: vec![] }) }));
        }
        for (name, bytes) in [("ff", vec![0xFFu8]), ("c3-28", vec![0xC3, 0x28]), ("00", vec![0x00])] {
            wills.push(dev!(format!("will.payload={name}"), move |a: &mut AP| if let AP::Connect { will, .. } = a { *will = Some(Will { topic: b"w".to_vec(), payload: bytes.clone(), qos: 0, retain: false, props: vec![] }) }));
        }
        for n in special_names() {
            wills.push(dev!(format!("will.topic={n:?}"), move |a: &mut AP| if let AP::Connect { will, .. } = a { *will = Some(Will { topic: n.as_bytes().to_vec(), payload: b"x".to_vec(), qos: 1, retain: false, props: vec![] }) }));
        }
        fields.push(wills);
        let mut users: Vec<Dev> = lens.iter().map(|&l| dev!(format!("user.len={l}"), move |a: &mut AP| if let AP::Connect { user, .. } = a { *user = Some(s(l)) })).collect();
        for n in ["\u{e9}", "\u{1F600}x", "n\u{0}l"] {
            users.push(dev!(format!("user={n:?}"), move |a: &mut AP| if let AP::Connect { user, .. } = a { *user = Some(n.as_bytes().to_vec()) }));
            users.push(dev!(format!("client_id={n:?}"), move |a: &mut AP| if let AP::Connect { client_id, .. } = a { *client_id = n.as_bytes().to_vec() }));
        }
        fields.push(users);
        fields.push(lens.iter().map(|&l| dev!(format!("password.len={l}"), move |a: &mut AP| if let AP::Connect { pass, user, .. } = a { *pass = Some(s(l)); if !v5 && user.is_none() { *user = Some(b"u".to_vec()) } })).collect());
        if v5 {
            fields.push(prop_field(Loc::Connect, level, set_props));
            fields.push(prop_field(Loc::Will, level, set_will_props));
        }
        out.push(Kind { name: "CONNECT".into(), base, fields });
    }
    // ---- CONNACK
    {
        let base = AP::Connack { ver, sp: false, code: 0, props: vec![] };
        let mut fields: Vec<Vec<Dev>> = vec![];
        fields.push(vec![dev!("sp=true", |a: &mut AP| if let AP::Connack { sp, .. } = a { *sp = true })]);
        let codes: Vec<u8> = if v5 { rc::connack_codes_v5().to_vec() } else { rc::connack_codes_v4().to_vec() };
        fields.push(codes.into_iter().filter(|c| *c != 0).map(|c| dev!(format!("code=0x{c:02x}"), move |a: &mut AP| if let AP::Connack { code, sp, .. } = a { *code = c; *sp = false })).collect());
        if v5 {
            fields.push(prop_field(Loc::Connack, level, set_props));
        }
        out.push(Kind { name: "CONNACK".into(), base, fields });
    }
    // ---- PUBLISH
    {
        let base = AP::Publish { ver, dup: false, qos: 0, retain: false, topic: b"a".to_vec(), pid: None, props: vec![], payload: b"p".to_vec() };
        let mut fields: Vec<Vec<Dev>> = vec![];
        fields.push([1u8, 2].iter().map(|&q| dev!(format!("qos={q}"), move |a: &mut AP| if let AP::Publish { qos, pid, .. } = a { *qos = q; if pid.is_none() { *pid = Some(1) } })).collect());
        fields.push(vec![dev!("dup=true", |a: &mut AP| if let AP::Publish { dup, qos, pid, .. } = a { *dup = true; if *qos == 0 { *qos = 1; *pid = Some(1) } })]);
        fields.push(vec![dev!("retain=true", |a: &mut AP| if let AP::Publish { retain, .. } = a { *retain = true })]);
        let mut topics: Vec<Dev> = lens.iter().filter(|l| **l > 0).map(|&l| dev!(format!("topic.len={l}"), move |a: &mut AP| if let AP::Publish { topic, .. } = a { *topic = s(l) })).collect();
        for n in special_names() {
            topics.push(dev!(format!("topic={n:?}"), move |a: &mut AP| if let AP::Publish { topic, .. } = a { *topic = n.as_bytes().to_vec() }));
        }
        fields.push(topics);
        let mut pls: Vec<Dev> = lens.iter().map(|&l| dev!(format!("payload.len={l}"), move |a: &mut AP| if let AP::Publish { payload, .. } = a { *payload = s(l) })).collect();
        // payloads that put the Remaining Length of the base packet (QoS 0, topic "a") exactly on a boundary of
        // its own encoding: last 1- / first 2-byte value, last 2- / first 3-byte value (thorough: 3 / 4)
        let fixed = if v5 { 4usize } else { 3 };
        let mut rls: Vec<usize> = vec![127, 128, 16383, 16384];
        if level > 0 {
            rls.extend([2_097_151usize, 2_097_152]);
        }
        for rl in rls {
            pls.push(dev!(format!("payload.len={}(remaining-length={rl})", rl - fixed), move |a: &mut AP| if let AP::Publish { payload, .. } = a { *payload = s(rl - fixed) }));
        }
        // payload *contents*: arbitrary binary data is legal whatever the other fields say (in particular next to a
        // Payload Format Indicator of 1 - the specification lets a receiver validate it, not a codec)
        for (name, bytes) in [("ff", vec![0xFFu8]), ("80", vec![0x80]), ("c3-28", vec![0xC3, 0x28]), ("00", vec![0x00]), ("e2-82(truncated)", vec![b'a', 0xE2, 0x82]), ("utf8", "\u{e9}\u{1F600}".as_bytes().to_vec())] {
            pls.push(dev!(format!("payload={name}"), move |a: &mut AP| if let AP::Publish { payload, .. } = a { *payload = bytes.clone() }));
        }
        fields.push(pls);
        fields.push(pid_field(max));
        if v5 {
            let mut pf = prop_field(Loc::Publish, level, set_props);
            // property blocks around the 1-byte / 2-byte Property Length boundary, with and without a Topic
            // Alias (the rewriting helpers add / remove those 3 bytes)
            let mut sizes: Vec<usize> = (124..=131).collect();
            if level > 0 {
                sizes.extend(16380..=16387);
            }
            for n in sizes {
                pf.push(dev!(format!("props.size={n}"), move |a: &mut AP| if let AP::Publish { props, .. } = a { *props = vec![pad_user(n, 0)] }));
                pf.push(dev!(format!("props.size={n}(alias)"), move |a: &mut AP| if let AP::Publish { props, .. } = a { *props = vec![Prop { id: 0x23, val: PVal::U16(7) }, pad_user(n, 3)] }));
                pf.push(dev!(format!("props.size={n}(alias last)"), move |a: &mut AP| if let AP::Publish { props, .. } = a { *props = vec![pad_user(n, 3), Prop { id: 0x23, val: PVal::U16(7) }] }));
            }
            pf.push(dev!("empty-topic+alias", |a: &mut AP| if let AP::Publish { topic, props, .. } = a { *topic = vec![]; *props = vec![Prop { id: 0x23, val: PVal::U16(7) }] }));
            fields.push(pf);
        }
        out.push(Kind { name: "PUBLISH".into(), base, fields });
    }
    // ---- PUBACK / PUBREC / PUBREL / PUBCOMP
    for kind in [AckKind::Puback, AckKind::Pubrec, AckKind::Pubrel, AckKind::Pubcomp] {
        let base = AP::Ack { ver, kind, pid: 1, code: None, props: None };
        let mut fields: Vec<Vec<Dev>> = vec![pid_field(max)];
        if v5 {
            fields.push(kind.codes().iter().map(|&c| dev!(format!("code=0x{c:02x}"), move |a: &mut AP| if let AP::Ack { code, .. } = a { *code = Some(c) })).collect());
            let mut pf = prop_field(kind.loc(), level, set_props);
            pf.push(dev!("props=[] (present, empty)", |a: &mut AP| set_props(a, vec![])));
            fields.push(pf);
        }
        out.push(Kind { name: kind.name().into(), base, fields });
    }
    // ---- SUBSCRIBE
    {
        let base = AP::Subscribe { ver, pid: 1, props: vec![], entries: vec![(b"f".to_vec(), 0)] };
        let mut fields: Vec<Vec<Dev>> = vec![pid_field(max)];
        let opts: Vec<u8> = if v5 { vec![1, 2, 0x04, 0x08, 0x10, 0x20, 0x2E] } else { vec![1, 2] };
        fields.push(opts.into_iter().map(|o| dev!(format!("opts=0x{o:02x}"), move |a: &mut AP| if let AP::Subscribe { entries, .. } = a { entries[0].1 = o })).collect());
        let mut fl: Vec<Dev> = lens.iter().filter(|l| **l > 0).map(|&l| dev!(format!("filter.len={l}"), move |a: &mut AP| if let AP::Subscribe { entries, .. } = a { entries[0].0 = s(l) })).collect();
        for n in special_filters() {
            fl.push(dev!(format!("filter={n:?}"), move |a: &mut AP| if let AP::Subscribe { entries, .. } = a { entries[0].0 = n.as_bytes().to_vec() }));
        }
        fields.push(fl);
        fields.push(vec![
            dev!("entries=2", |a: &mut AP| if let AP::Subscribe { entries, .. } = a { entries.push((b"g/#".to_vec(), 1)) }),
            dev!("entries=3", |a: &mut AP| if let AP::Subscribe { entries, .. } = a { entries.push((b"g/+".to_vec(), 2)); entries.push((b"#".to_vec(), 0)) }),
        ]);
        if v5 {
            fields.push(prop_field(Loc::Subscribe, level, set_props));
        }
        out.push(Kind { name: "SUBSCRIBE".into(), base, fields });
    }
    // ---- SUBACK
    {
        let base = AP::Suback { ver, pid: 1, props: vec![], codes: vec![0] };
        let mut fields: Vec<Vec<Dev>> = vec![pid_field(max)];
        let codes: Vec<u8> = if v5 { rc::suback_codes_v5().to_vec() } else { rc::suback_codes_v4().to_vec() };
        let c2 = codes.clone();
        fields.push(codes.into_iter().filter(|c| *c != 0).map(|c| dev!(format!("code=0x{c:02x}"), move |a: &mut AP| if let AP::Suback { codes, .. } = a { codes[0] = c })).collect());
        fields.push(vec![dev!("codes=all", move |a: &mut AP| if let AP::Suback { codes, .. } = a { *codes = c2.clone() }), dev!("codes=2", |a: &mut AP| if let AP::Suback { codes, .. } = a { codes.push(1) })]);
        if v5 {
            fields.push(prop_field(Loc::Suback, level, set_props));
        }
        out.push(Kind { name: "SUBACK".into(), base, fields });
    }
    // ---- UNSUBSCRIBE
    {
        let base = AP::Unsubscribe { ver, pid: 1, props: vec![], filters: vec![b"f".to_vec()] };
        let mut fields: Vec<Vec<Dev>> = vec![pid_field(max)];
        let mut fl: Vec<Dev> = lens.iter().filter(|l| **l > 0).map(|&l| dev!(format!("filter.len={l}"), move |a: &mut AP| if let AP::Unsubscribe { filters, .. } = a { filters[0] = s(l) })).collect();
        for n in special_filters() {
            fl.push(dev!(format!("filter={n:?}"), move |a: &mut AP| if let AP::Unsubscribe { filters, .. } = a { filters[0] = n.as_bytes().to_vec() }));
        }
        fields.push(fl);
        fields.push(vec![dev!("filters=2", |a: &mut AP| if let AP::Unsubscribe { filters, .. } = a { filters.push(b"g/#".to_vec()) }), dev!("filters=3", |a: &mut AP| if let AP::Unsubscribe { filters, .. } = a { filters.push(b"g".to_vec()); filters.push(b"+".to_vec()) })]);
        if v5 {
            fields.push(prop_field(Loc::Unsubscribe, level, set_props));
        }
        out.push(Kind { name: "UNSUBSCRIBE".into(), base, fields });
    }
    // ---- UNSUBACK
    {
        let base = AP::Unsuback { ver, pid: 1, props: vec![], codes: if v5 { vec![0] } else { vec![] } };
        let mut fields: Vec<Vec<Dev>> = vec![pid_field(max)];
        if v5 {
            let all = rc::unsuback_codes().to_vec();
            fields.push(rc::unsuback_codes().iter().filter(|c| **c != 0).map(|&c| dev!(format!("code=0x{c:02x}"), move |a: &mut AP| if let AP::Unsuback { codes, .. } = a { codes[0] = c })).collect());
            fields.push(vec![dev!("codes=all", move |a: &mut AP| if let AP::Unsuback { codes, .. } = a { *codes = all.clone() })]);
            fields.push(prop_field(Loc::Unsuback, level, set_props));
        }
        out.push(Kind { name: "UNSUBACK".into(), base, fields });
    }
    out.push(Kind { name: "PINGREQ".into(), base: AP::Pingreq { ver }, fields: vec![] });
    out.push(Kind { name: "PINGRESP".into(), base: AP::Pingresp { ver }, fields: vec![] });
    // ---- DISCONNECT
    {
        let base = AP::Disconnect { ver, code: None, props: None };
        let mut fields: Vec<Vec<Dev>> = vec![];
        if v5 {
            fields.push(rc::disconnect_codes().iter().map(|&c| dev!(format!("code=0x{c:02x}"), move |a: &mut AP| if let AP::Disconnect { code, .. } = a { *code = Some(c) })).collect());
            let mut pf = prop_field(Loc::Disconnect, level, set_props);
            pf.push(dev!("props=[] (present, empty)", |a: &mut AP| set_props(a, vec![])));
            fields.push(pf);
        }
        out.push(Kind { name: "DISCONNECT".into(), base, fields });
    }
    // ---- AUTH
    if v5 {
        let base = AP::Auth { code: None, props: None };
        let mut fields: Vec<Vec<Dev>> = vec![];
        fields.push(vec![dev!("code=0x00", |a: &mut AP| if let AP::Auth { code, props } = a { *code = Some(0); if props.is_none() { *props = Some(vec![]) } })]);
        // non-success codes need an Authentication Method
        fields.push([0x18u8, 0x19].iter().map(|&c| dev!(format!("code=0x{c:02x}+method"), move |a: &mut AP| if let AP::Auth { code, props } = a { *code = Some(c); let mut ps = props.clone().unwrap_or_default(); if !ps.iter().any(|p| p.id == 0x15) { ps.insert(0, typical(0x15)); } *props = Some(ps) })).collect());
        let mut pf: Vec<Dev> = vec![];
        for (l, ps) in prop_sets(Loc::Auth, level) {
            pf.push((l, Box::new(move |a: &mut AP| {
                // Authentication Data requires Authentication Method
                let mut ps = ps.clone();
                if ps.iter().any(|p| p.id == 0x16) && !ps.iter().any(|p| p.id == 0x15) {
                    ps.insert(0, typical(0x15));
                }
                let keep_method = if let AP::Auth { props: Some(old), .. } = a { old.iter().find(|p| p.id == 0x15).cloned() } else { None };
                if let Some(m) = keep_method {
                    if !ps.iter().any(|p| p.id == 0x15) {
                        ps.insert(0, m);
                    }
                }
                set_props(a, ps)
            }) as Box<dyn Fn(&mut AP) + Send + Sync>));
        }
        pf.push(dev!("props=[] (present, empty)", |a: &mut AP| set_props(a, vec![])));
        fields.push(pf);
        out.push(Kind { name: "AUTH".into(), base, fields });
    }
    out
}

/// Dense single-field sweeps: one string / binary field at a time takes *every* length 0..=max_len (all other
/// fields at their defaults). Catches slips that depend on a particular length value rather than on a
/// boundary (a length byte that happens to equal an ASCII character, a modulus, ...).
pub fn dense(ver: Ver, max_len: usize, f: &mut dyn FnMut(&str, &AP)) {
    let v5 = ver == Ver::V5;
    for l in 0..=max_len {
        if l > 0 {
            f(&format!("PUBLISH topic.len={l} (dense)"), &AP::Publish { ver, dup: false, qos: 1, retain: false, topic: s(l), pid: Some(1), props: vec![], payload: b"p".to_vec() });
            f(&format!("SUBSCRIBE filter.len={l} (dense)"), &AP::Subscribe { ver, pid: 1, props: vec![], entries: vec![(s(l), 1)] });
            f(&format!("UNSUBSCRIBE filter.len={l} (dense)"), &AP::Unsubscribe { ver, pid: 1, props: vec![], filters: vec![s(l)] });
            f(&format!("CONNECT will.topic.len={l} (dense)"), &AP::Connect { ver, clean: true, keep_alive: 0, client_id: b"c".to_vec(), will: Some(Will { topic: s(l), payload: b"x".to_vec(), qos: 1, retain: false, props: vec![] }), user: None, pass: None, props: vec![] });
        }
        f(&format!("PUBLISH payload.len={l} (dense)"), &AP::Publish { ver, dup: false, qos: 0, retain: false, topic: b"a".to_vec(), pid: None, props: vec![], payload: s(l) });
        f(&format!("CONNECT client_id.len={l} (dense)"), &AP::Connect { ver, clean: true, keep_alive: 0, client_id: s(l), will: None, user: None, pass: None, props: vec![] });
        f(&format!("CONNECT user/password.len={l} (dense)"), &AP::Connect { ver, clean: true, keep_alive: 0, client_id: b"c".to_vec(), will: None, user: Some(s(l)), pass: Some(s(l)), props: vec![] });
        f(&format!("CONNECT will.payload.len={l} (dense)"), &AP::Connect { ver, clean: true, keep_alive: 0, client_id: b"c".to_vec(), will: Some(Will { topic: b"w".to_vec(), payload: s(l), qos: 0, retain: true, props: vec![] }), user: None, pass: None, props: vec![] });
        if v5 {
            f(&format!("PUBACK reason-string.len={l} (dense)"), &AP::Ack { ver, kind: AckKind::Puback, pid: 1, code: Some(0x10), props: Some(vec![Prop { id: 0x1F, val: PVal::Str(s(l)) }]) });
            f(&format!("PUBLISH user-property.len={l}/{l} (dense)"), &AP::Publish { ver, dup: false, qos: 0, retain: false, topic: b"a".to_vec(), pid: None, props: vec![Prop { id: 0x26, val: PVal::Pair(s(l), s(l)) }], payload: vec![] });
            f(&format!("PUBLISH correlation-data.len={l} (dense)"), &AP::Publish { ver, dup: false, qos: 0, retain: false, topic: b"a".to_vec(), pid: None, props: vec![Prop { id: 0x09, val: PVal::Bin(s(l)) }], payload: vec![] });
            f(&format!("DISCONNECT server-reference.len={l} (dense)"), &AP::Disconnect { ver, code: Some(0x9C), props: Some(vec![Prop { id: 0x1C, val: PVal::Str(s(l)) }]) });
        }
    }
}

/// Enumerate all packets of `k` with at most `d` deviating fields; long-length values are
/// applied to at most two fields at a time (the stated bound). `f(label, packet)`.
pub fn enumerate(k: &Kind, d: usize, f: &mut dyn FnMut(&str, &AP)) {
    fn rec(k: &Kind, d: usize, start: usize, cur: &AP, label: &mut Vec<String>, longs: usize, f: &mut dyn FnMut(&str, &AP)) {
        f(&format!("{} {}", k.name, label.join(" ")), cur);
        if d == 0 {
            return;
        }
        for fi in start..k.fields.len() {
            for (l, m) in &k.fields[fi] {
                let is_long = l.contains(".len=") && l.rsplit('=').next().and_then(|x| x.parse::<usize>().ok()).map(|n| n >= 16383).unwrap_or(false);
                if is_long && longs >= 2 {
                    continue;
                }
                let mut next = cur.clone();
                m(&mut next);
                label.push(l.clone());
                rec(k, d - 1, fi + 1, &next, label, longs + is_long as usize, f);
                label.pop();
            }
        }
    }
    let mut label = vec![];
    rec(k, d, 0, &k.base, &mut label, 0, f);
}
