//! Reference-model transitions and rule groups for the endpoint world (`ep.rs`).
//!
//! `observe` is called once per library call with the canonical events it returned; it advances
//! the reference model `Mdl` and reports rule violations. `after_step` compares the model with
//! the post-step snapshot of the real object. Rule ids are `<group>.<rule>`; a group reports only
//! when the running property enabled it (the models always run).
#![allow(dead_code)]
use crate::conn::{ap_short, ConnBox, Ev, Tk};
use crate::ep::*;
use crate::refcodec::{self as rc, AckKind, PVal, Prop, Ver, AP};
use crate::bridge::Pid;
use mqtt_protocol_core::mqtt::connection::core::verif_hooks::VerifState;
use mqtt_protocol_core::mqtt::result_code::MqttError;
use std::collections::BTreeSet;

fn prop_u16(ps: &[Prop], id: u8) -> Option<u16> {
    ps.iter().find_map(|p| match (&p.val, p.id == id) {
        (PVal::U16(v), true) => Some(*v),
        _ => None,
    })
}
fn prop_u32(ps: &[Prop], id: u8) -> Option<u32> {
    ps.iter().find_map(|p| match (&p.val, p.id == id) {
        (PVal::U32(v), true) => Some(*v),
        _ => None,
    })
}
fn alias_of(ps: &[Prop]) -> Option<u16> {
    prop_u16(ps, 0x23)
}
fn is_protocol_error_class(e: &MqttError) -> bool {
    matches!(e, MqttError::ProtocolError | MqttError::MalformedPacket)
}

/// notes collected during `observe` for checks that need the post-step snapshot
#[derive(Clone, Debug)]
pub enum Note {
    /// a QoS>0 PUBLISH was handed to send
    Pub { id: u32, q: u8, topic: Vec<u8>, accepted: bool, sent: bool },
    /// a PUBREL was transmitted for id
    Rel { id: u32 },
    /// the frame must have been refused with a protocol error and must leave session state untouched
    MustNotChange { what: &'static str, rule: &'static str },
    /// a client received CONNACK(session present) carrying Session Expiry Interval 0
    Expiry0Resume,
    /// send() refused a PUBLISH with an error: the step (acquire + refused send) must leave no trace
    RefusedPublish,
}

thread_local! {
    static NOTES: std::cell::RefCell<Vec<Note>> = const { std::cell::RefCell::new(Vec::new()) };
}
fn note(n: Note) {
    NOTES.with(|v| v.borrow_mut().push(n));
}
pub fn reset() {
    let _ = take_notes();
}
fn take_notes() -> Vec<Note> {
    NOTES.with(|v| std::mem::take(&mut *v.borrow_mut()))
}

fn intent_topic(m: &Mdl, act: &Act) -> Option<Vec<u8>> {
    match act {
        Act::Pub { t, al, .. } => match al {
            Al::No | Al::Reg(_) => Some(TOPICS[*t as usize].to_vec()),
            Al::Use(a) => m.app_alias.get(a).map(|t| TOPICS[*t as usize].to_vec()),
        },
        _ => None,
    }
}

fn store_ent_size(e: &StoreEnt, ver: Ver, w: usize) -> usize {
    if e.size > 0 {
        return e.size;
    }
    let ap = match e.kind {
        3 => AP::Ack { ver, kind: AckKind::Pubrel, pid: e.id, code: None, props: None },
        k => AP::Publish { ver, dup: true, qos: k, retain: false, topic: e.topic.clone(), pid: Some(e.id), props: vec![], payload: e.payload.clone() },
    };
    rc::encode(&ap, w).len()
}

/// signature of an unclassified frame: packet type (+ QoS for PUBLISH) and whether connected
pub fn unclassified_sig(first_byte: u8, m: &Mdl) -> String {
    let ty = first_byte >> 4;
    let kind = if ty == 3 { format!("PUBLISH(q{})", (first_byte >> 1) & 3) } else { format!("type{ty}") };
    format!("c05.unclassified|{}|{}", kind, if m.st == St::Connected { "connected" } else { "not-connected" })
}

pub fn close_order_pub(m: &Mdl, c: &Call, r: &mut Rules) {
    close_order(m, c, r)
}

/// C19 — pure function of one event list (+ the call kind for the timeout clause)
fn close_order(m: &Mdl, c: &Call, r: &mut Rules) {
    let mut closed = false;
    for e in &c.evs {
        match e {
            Ev::Close => closed = true,
            Ev::Send { ap, .. } if closed => {
                r.viol("c19.send-after-close", m, format!("RequestClose precedes RequestSendPacket({}) in one event list: {}", ap_short(ap), c.describe()));
            }
            _ => {}
        }
    }
    let sent_disc = c.sends().iter().any(|a| matches!(a, AP::Disconnect { .. }));
    let sent_refusal = c.sends().iter().any(|a| matches!(a, AP::Connack { code, .. } if *code != 0));
    if sent_disc {
        r.label("c19.disconnect-sent");
    }
    if sent_refusal {
        r.label("c19.refusing-connack-sent");
    }
    if (sent_disc || sent_refusal) && !c.has_close() {
        r.viol("c19.no-close-after-final-packet", m, format!("a DISCONNECT / refusing CONNACK is sent without a close request: {}", c.describe()));
    }
    if let CallKind::Timer(k) = &c.kind {
        if matches!(k, Tk::PingreqRecv | Tk::PingrespRecv) && m.st == St::Connected {
            r.label("c19.keepalive-timeout");
            if !c.has_close() {
                r.viol("c19.timeout-without-close", m, format!("keep-alive timeout on an established connection without a close request: {}", c.describe()));
            }
        }
    }
    if c.has_close() {
        r.label("c19.close-requested");
    }
}

fn expected_pingreq_interval(m: &Mdl) -> u64 {
    if let Some(u) = m.user_interval {
        return u;
    }
    if let Some(s) = m.link.ska {
        return s as u64 * 1000;
    }
    m.link.ka_connect as u64 * 1000
}

pub fn observe(m: &mut Mdl, c: &Call, r: &mut Rules, w: usize) {
    let pre = m.clone();
    let ver = m.ver.unwrap_or(Ver::V4);
    let v5 = m.ver == Some(Ver::V5);
    close_order(m, c, r);
    if let CallKind::Timer(k) = &c.kind {
        // the expiry itself un-arms the timer before the call's own events
        m.armed[k.idx()] = false;
    }
    let pre_armed = m.armed;

    // ---- timer event stream (C15: cancel only when armed)
    let mut resets: Vec<(Tk, u64)> = vec![];
    for e in &c.evs {
        match e {
            Ev::TimerCancel(k) => {
                if !m.armed[k.idx()] {
                    r.viol("c15.cancel-unarmed", &pre, format!("RequestTimerCancel({k:?}) for a timer that is not armed: {}", c.describe()));
                }
                m.armed[k.idx()] = false;
                r.label("c15.cancel");
            }
            Ev::TimerReset(k, d) => {
                m.armed[k.idx()] = true;
                resets.push((*k, *d));
            }
            _ => {}
        }
    }

    let mut exp_rel: BTreeSet<u32> = BTreeSet::new();
    let mut resumed = false;

    match &c.kind {
        CallKind::Acquire(res) => match res {
            Ok(id) => {
                if m.ids.contains_key(id) {
                    r.viol("c08.acquire-dup", &pre, format!("acquire_packet_id returned {id} which is in use ({:?})", m.ids.get(id)));
                }
                m.ids.insert(*id, Owner::App);
                r.label("c08.acquire");
            }
            Err(e) => {
                r.viol("c08.acquire-refused", &pre, format!("acquire_packet_id failed with {e:?} although only {} ids are in use", m.ids.len()));
            }
        },
        CallKind::Register(v, res) => {
            let max = if w == 2 { 65535u32 } else { u32::MAX };
            let exp_ok = *v != 0 && *v <= max && !m.ids.contains_key(v);
            if res.is_ok() != exp_ok {
                r.viol("c08.register", &pre, format!("register_packet_id({v}) = {res:?}, expected {}", if exp_ok { "Ok" } else { "an error" }));
            }
            if res.is_ok() {
                m.ids.insert(*v, Owner::App);
                r.label("c08.register-ok");
            } else {
                r.label("c08.register-refused");
            }
        }
        CallKind::Release(v) => {
            if m.ids.contains_key(v) {
                exp_rel.insert(*v);
            }
            r.label("c08.release-call");
        }
        CallKind::Erase(id) => {
            if let Some(pos) = m.store.iter().position(|e| e.id == *id && e.kind != 3) {
                m.store.remove(pos);
                exp_rel.insert(*id);
                if m.st == St::Connected && m.out_n > 0 {
                    m.out_n -= 1;
                }
                r.label("c06.erase");
            }
        }
        CallKind::SetPingrespTo(d) => {
            m.pingresp_to = *d;
        }
        CallKind::SetOpt(k, v) => {
            if *k == 0 {
                m.auto_pub = *v;
            } else {
                m.offline = *v;
                if *v && pre.st == St::Disc {
                    m.keep_mark = true;
                }
            }
            m.opt_toggles += 1;
            r.label("option-toggled");
        }
        CallKind::SetInterval(d) => {
            m.user_interval = *d;
            if pre.st == St::Disc && !resets.is_empty() {
                r.viol("c15.arm-while-disconnected", &pre, format!("a local call arms a timer while disconnected: {}", c.describe()));
            }
            // the interval in force is the one chosen by priority *now*: a change made by this call shows in the
            // timer at once - not only after the next packet the client happens to send
            if pre.st != St::Disc && pre.as_client {
                let before = expected_pingreq_interval(&pre);
                let after = expected_pingreq_interval(m);
                let armed = m.armed[Tk::PingreqSend.idx()];
                r.label("c15.setter-checked");
                if after == 0 && armed {
                    r.viol("c15.setter-leaves-timer-for-0", &pre, format!("the PINGREQ interval in force is 0 after this call (override {:?}, server keep alive {:?}, keep alive {}) but the timer armed earlier keeps running: {}", m.user_interval, m.link.ska, m.link.ka_connect, c.describe()));
                }
                if after > 0 && (after != before || !pre_armed[Tk::PingreqSend.idx()]) {
                    let got: Vec<u64> = resets.iter().filter(|x| x.0 == Tk::PingreqSend).map(|x| x.1).collect();
                    if got.last() != Some(&after) {
                        r.viol("c15.setter-not-applied", &pre, format!("the PINGREQ interval in force changes from {before} to {after} ms (override {:?}, server keep alive {:?}, keep alive {}) but the timer is not armed with it (got {got:?}, armed before: {}): {}", m.user_interval, m.link.ska, m.link.ka_connect, pre_armed[Tk::PingreqSend.idx()], c.describe()));
                    }
                }
            }
        }
        CallKind::Timer(k) => {
            if pre.st == St::Connected {
                match k {
                    Tk::PingreqSend => {
                        r.label("c15.expiry-pingreq-send");
                        if !c.sends().iter().any(|a| matches!(a, AP::Pingreq { .. })) {
                            r.viol("c15.expiry-effect", &pre, format!("PingreqSend expired while connected but no PINGREQ is transmitted: {}", c.describe()));
                        }
                    }
                    _ => {
                        r.label("c15.expiry-timeout");
                        let disc = c.sends().iter().any(|a| matches!(a, AP::Disconnect { code: Some(0x8D), .. }));
                        if !c.has_close() || (v5 && !disc) {
                            r.viol("c15.expiry-effect", &pre, format!("{k:?} expired while connected: expected {} ; got {}", if v5 { "DISCONNECT(0x8D) then close" } else { "close" }, c.describe()));
                        }
                    }
                }
            } else if pre.st == St::Connecting && matches!(k, Tk::PingreqSend) && pre.as_client {
                // the PINGREQ timer armed by the CONNECT expires before the CONNACK: nothing can be pinged yet,
                // but the keep alive must survive - the timer is armed again (otherwise the connected client has
                // an interval in force and no timer until it happens to send something)
                let d = expected_pingreq_interval(&pre);
                if d > 0 {
                    r.label("c15.expiry-pingreq-send-while-connecting");
                    let rearmed = c.evs.iter().any(|e| matches!(e, Ev::TimerReset(Tk::PingreqSend, _))) || c.sends().iter().any(|a| matches!(a, AP::Pingreq { .. }));
                    if !rearmed {
                        r.viol("c15.pingreq-send-lost-connecting", &pre, format!("PingreqSend expired while the CONNACK is outstanding (interval in force {d} ms): the timer is neither armed again nor a PINGREQ sent - the keep alive is lost: {}", c.describe()));
                    }
                }
            } else if pre.st == St::Connecting && !matches!(k, Tk::PingreqSend) {
                // a keep-alive timeout before the CONNACK: no DISCONNECT can be sent yet, but the expiry must
                // still end the connection attempt in both protocol versions
                r.label("c15.expiry-timeout-while-connecting");
                if !c.has_close() {
                    r.viol("c15.expiry-effect-connecting", &pre, format!("{k:?} expired while the CONNACK is outstanding: expected a close request; got {}", c.describe()));
                }
            }
        }
        CallKind::Closed => {
            // a connection attempt that never got a successful CONNACK (refused, or the transport died first) does
            // not change what the session is: its persistence is the one from before the CONNECT - unless that
            // CONNECT was a clean start, which began a new (so far empty) session on the spot
            if !m.established && m.link_up_or_attempted() && !m.clean_start {
                if m.persistent != m.persistent_before {
                    r.label("session.attempt-not-established");
                }
                m.persistent = m.persistent_before;
            }
            for (id, o) in &m.ids {
                match o {
                    Owner::Sub | Owner::Unsub => {
                        exp_rel.insert(*id);
                    }
                    Owner::Pub1 | Owner::Pub2 | Owner::Rel | Owner::RelOwed if !m.persistent => {
                        exp_rel.insert(*id);
                    }
                    _ => {}
                }
            }
            if !exp_rel.is_empty() {
                r.label("c08.release-on-close");
            }
            if !m.persistent {
                m.q2_notified.clear();
                m.store.clear();
                m.owed_rel.clear();
                // the session ended: from here on the object keeps packets iff offline publishing is on
                m.keep_mark = m.offline;
            }
            m.st = St::Disc;
            m.link = LinkFacts::default();
            m.link_up = false;
            m.close_pending = false;
            m.peer_alias.clear();
            m.app_alias.clear();
            m.recv_alias.clear();
            m.partial_pending = false;
            m.in_unacked.clear();
            m.out_n = 0;
            m.connack_owed = false;
            m.peer_disc = false;
            r.label("closed");
        }
        CallKind::RecvPartial(_) => {
            if !c.evs.is_empty() {
                r.viol("c05.partial-events", &pre, format!("an incomplete frame produced events: {}", c.describe()));
            }
        }
        CallKind::Send(ap) => on_send(m, &pre, ap, c, r, &mut exp_rel, &mut resumed, w),
        CallKind::Recv { ap: Some(ap), frame } => on_recv(m, &pre, ap, frame, c, r, &mut exp_rel, &mut resumed, w),
        CallKind::Recv { ap: None, .. } => {}
    }

    // the marks of "the session before this CONNECT" are spent once the CONNACK has decided about it (kept any
    // longer they would only split states that have the same futures)
    if m.st == St::Connected && pre.st != St::Connected {
        m.old_ids.clear();
        m.old_q2.clear();
    }

    // ---- effects of transmitted packets, whichever call transmitted them
    let mut first_send = true;
    for e in &c.evs {
        let Ev::Send { ap, bytes, size, .. } = e else { continue };
        // C14 outbound
        if v5 {
            if let Some(l) = m.link.peer_mps {
                r.label("c14.send-under-limit-checked");
                if *size as u64 > l as u64 || bytes.len() as u64 > l as u64 {
                    r.viol("c14.oversize-send", &pre, format!("packet of size() {} / {} encoded bytes requested for sending although the peer's Maximum Packet Size is {}: {}", size, bytes.len(), l, ap_short(ap)));
                }
                if bytes.len() as u64 == l as u64 {
                    r.label("c14.send-at-limit");
                }
            }
        }
        if *size != bytes.len() {
            r.viol("c14.size-mismatch", &pre, format!("size() {} != encoded length {} for {}", size, bytes.len(), ap_short(ap)));
        }
        // a transmitted PUBLISH must be a frame a spec-conformant receiver reads back as exactly these field
        // values (the rewriting done for aliases / the store must keep the cached lengths consistent)
        if let AP::Publish { .. } = ap {
            r.label("pub.frame-checked");
            let ok = matches!(rc::decode(ver, bytes, w), Ok(ref d) if d == ap);
            if !ok {
                let d = format!("the transmitted PUBLISH does not read back as the packet the library reports ({}): wire {} -> {:?}", ap_short(ap), crate::util::hex_trunc(bytes, 24), rc::decode(ver, bytes, w).map(|d| ap_short(&d)));
                r.viol("c13.unresolvable-frame", &pre, d.clone());
                r.viol("c06.retransmit-frame", &pre, d.clone());
                r.viol("c14.frame", &pre, d);
            }
        }
        match ap {
            AP::Publish { topic, props, pid, qos, .. } => {
                let al = alias_of(props);
                let resolved: Option<Vec<u8>> = if topic.is_empty() {
                    match al.and_then(|a| m.peer_alias.get(&a).cloned()) {
                        Some(t) => {
                            r.label("c13.sent-by-alias");
                            Some(t)
                        }
                        None => {
                            r.viol("c13.unresolvable", &pre, format!("PUBLISH with empty topic sent with alias {al:?} that no earlier PUBLISH on this connection bound (receiver table {:?})", m.peer_alias));
                            None
                        }
                    }
                } else {
                    if let Some(a) = al {
                        if a == 0 || a > m.link.peer_tam {
                            r.viol("c13.alias-out-of-range", &pre, format!("PUBLISH sent with alias {a} outside 1..={}", m.link.peer_tam));
                        } else {
                            if m.peer_alias.contains_key(&a) && m.peer_alias.get(&a) != Some(topic) {
                                r.label("c13.rebind");
                            }
                            m.peer_alias.insert(a, topic.clone());
                            r.label("c13.bind");
                        }
                    }
                    Some(topic.clone())
                };
                // direct publish of this step: must resolve to the application's intent
                if let (CallKind::Send(AP::Publish { pid: p0, .. }), Some(res)) = (&c.kind, &resolved) {
                    if p0 == pid {
                        if let Some(intent) = intent_topic(&pre, &r.act) {
                            if &intent != res {
                                r.viol("c13.wrong-topic", &pre, format!("the application asked for topic {:?} but the receiver resolves the sent PUBLISH to {:?} (topic {:?}, alias {:?})", String::from_utf8_lossy(&intent), String::from_utf8_lossy(res), String::from_utf8_lossy(topic), al));
                            }
                        }
                    }
                }
                let _ = qos;
            }
            AP::Ack { kind: AckKind::Puback, pid, .. } | AP::Ack { kind: AckKind::Pubcomp, pid, .. } => {
                m.in_unacked.remove(pid);
            }
            AP::Ack { kind: AckKind::Pubrec, pid, code, .. } => {
                if code.map(|c| c >= 0x80).unwrap_or(false) {
                    m.in_unacked.remove(pid);
                    m.q2_notified.remove(pid);
                    r.label("c07.local-error-pubrec");
                }
            }
            AP::Ack { kind: AckKind::Pubrel, pid, .. } => {
                note(Note::Rel { id: *pid });
            }
            AP::Disconnect { props, .. } => {
                m.st = St::Disc;
                // a Session Expiry Interval in DISCONNECT replaces the one in force (3.14.2.2.2)
                if let Some(v) = props.as_ref().and_then(|p| prop_u32(p, 0x11)) {
                    m.persistent = v != 0 && m.persistent;
                    r.label("session.expiry-in-disconnect");
                }
            }
            _ => {}
        }
        let _ = first_send;
        first_send = false;
    }

    // ---- any close request: the application closes the transport next
    if c.has_close() {
        m.close_pending = true;
        // the library itself asked for the close: nothing more is fed on this transport
        m.peer_disc = false;
    }

    // ---- release accounting (C08)
    let actual: Vec<u32> = c.released();
    let mut seen = BTreeSet::new();
    for id in &actual {
        if !seen.insert(*id) {
            r.viol("c08.release-twice", &pre, format!("NotifyPacketIdReleased({id}) twice in one call: {}", c.describe()));
            continue;
        }
        if !m.ids.contains_key(id) {
            r.viol("c08.release-free", &pre, format!("NotifyPacketIdReleased({id}) for an id that is not in use: {}", c.describe()));
        } else if !exp_rel.contains(id) {
            r.viol("c08.unexpected-release", &pre, format!("NotifyPacketIdReleased({id}) although the exchange owning it ({:?}) is not complete: {}", m.ids.get(id), c.describe()));
            m.ids.remove(id);
        } else {
            m.ids.remove(id);
            r.label("c08.released");
        }
    }
    for id in &exp_rel {
        if !actual.contains(id) {
            r.viol("c08.not-announced", &pre, format!("id {id} ({:?}) must be released and announced by this call but was not: {}", pre.ids.get(id), c.describe()));
            m.ids.remove(id);
        }
    }

    // ---- C15 rules that need the outcome
    let sends = c.sends();
    let sent_disc = sends.iter().any(|a| matches!(a, AP::Disconnect { .. }));
    if matches!(c.kind, CallKind::Closed) || sent_disc {
        r.label("c15.quiesce-point");
        if m.armed.iter().any(|x| *x) {
            r.viol("c15.armed-after-close", &pre, format!("timers still armed {:?} after {}", m.armed, c.describe()));
        }
    }
    if let CallKind::Send(ap) = &c.kind {
        if pre.st == St::Disc && !matches!(ap, AP::Connect { .. }) && !resets.is_empty() {
            r.viol("c15.arm-while-disconnected", &pre, format!("a local call arms a timer while disconnected: {}", c.describe()));
        }
    }
    if m.as_client && m.st == St::Connected && !sends.is_empty() && !sent_disc {
        let d = expected_pingreq_interval(m);
        let got: Vec<u64> = resets.iter().filter(|x| x.0 == Tk::PingreqSend).map(|x| x.1).collect();
        if d == 0 {
            r.label("c15.client-send-interval-0");
            if !got.is_empty() {
                r.viol("c15.pingreq-send-armed-for-0", &pre, format!("PINGREQ timer armed ({got:?}) although the effective interval is 0: {}", c.describe()));
            } else if m.armed[Tk::PingreqSend.idx()] {
                // "0 disables": a timer armed under an earlier, non-zero interval must not survive the send
                r.viol("c15.pingreq-send-left-armed-for-0", &pre, format!("the effective PINGREQ interval is 0 (override {:?}, server keep alive {:?}, keep alive {}) but the timer armed earlier is still running after this send: {}", m.user_interval, m.link.ska, m.link.ka_connect, c.describe()));
            }
        } else {
            r.label("c15.client-send-rearm");
            if got.last() != Some(&d) {
                r.viol("c15.pingreq-send-rearm", &pre, format!("client transmitted a packet while connected; expected RequestTimerReset(PingreqSend,{d}) (override {:?}, server keep alive {:?}, keep alive {}), got {got:?}: {}", m.user_interval, m.link.ska, m.link.ka_connect, c.describe()));
            }
        }
    }
    if !m.as_client && pre.st != St::Disc || (!m.as_client && matches!(&c.kind, CallKind::Recv { ap: Some(AP::Connect { .. }), .. })) {
        let eff = m.link.ska.unwrap_or(m.link.ka_connect) as u64;
        let got: Vec<u64> = resets.iter().filter(|x| x.0 == Tk::PingreqRecv).map(|x| x.1).collect();
        // accepted = delivered, or a retransmitted QoS 2 PUBLISH of a handled identifier that is answered with
        // PUBREC instead of being delivered again
        let dup_answered = matches!(&c.kind, CallKind::Recv { ap: Some(AP::Publish { qos: 2, .. }), .. }) && !c.has_error() && c.sends().iter().any(|a| matches!(a, AP::Ack { kind: AckKind::Pubrec, .. }));
        if dup_answered && c.recvs().is_empty() {
            r.label("c15.server-accepts-handled-duplicate");
        }
        let accepted = matches!(c.kind, CallKind::Recv { .. }) && (!c.recvs().is_empty() || dup_answered) && !c.recvs().iter().any(|a| matches!(a, AP::Disconnect { .. }));
        if eff == 0 {
            if !got.is_empty() && matches!(c.kind, CallKind::Recv { .. }) {
                r.viol("c15.pingreq-recv-armed-for-0", &pre, format!("server arms the keep-alive receive timer ({got:?}) although the effective keep alive is 0: {}", c.describe()));
            }
            if accepted {
                r.label("c15.server-keepalive-0");
            }
        } else if accepted && pre.st == St::Connected {
            r.label("c15.server-recv-rearm");
            let d = eff * 1000 * 3 / 2;
            if got.last() != Some(&d) {
                r.viol("c15.pingreq-recv-rearm", &pre, format!("server accepted a packet while connected; expected RequestTimerReset(PingreqRecv,{d}), got {got:?}: {}", c.describe()));
            }
        }
    }
    if sends.iter().any(|a| matches!(a, AP::Pingreq { .. })) {
        let got: Vec<u64> = resets.iter().filter(|x| x.0 == Tk::PingrespRecv).map(|x| x.1).collect();
        let t = m.pingresp_to;
        if t != 0 {
            r.label("c15.pingresp-timer-armed");
            if got != vec![t] {
                r.viol("c15.pingresp-arm", &pre, format!("PINGREQ sent with response timeout {t}; expected RequestTimerReset(PingrespRecv,{t}), got {got:?}"));
            }
        } else if !got.is_empty() {
            r.viol("c15.pingresp-arm", &pre, format!("PINGREQ sent with response timeout 0 but PingrespRecv armed {got:?}"));
        }
    }
    if let CallKind::Recv { ap: Some(AP::Pingresp { .. }), .. } = &c.kind {
        if pre.armed[Tk::PingrespRecv.idx()] && !c.recvs().is_empty() {
            r.label("c15.pingresp-cancels");
            if !c.evs.iter().any(|e| matches!(e, Ev::TimerCancel(Tk::PingrespRecv))) {
                r.viol("c15.pingresp-cancel", &pre, format!("PINGRESP accepted while the response timer is armed but it is not cancelled: {}", c.describe()));
            }
        }
    }
    let _ = (resumed, ver, pre_armed);
}

#[allow(clippy::too_many_arguments)]
fn resume_rule(m: &mut Mdl, pre: &Mdl, c: &Call, r: &mut Rules, exp_rel: &mut BTreeSet<u32>, skip_first_connack: bool, w: usize) {
    // (d) all still-stored packets are requested for sending again right after the CONNACK and before
    // any other packet, in store order, same ids, DUP on PUBLISH, full topic, no alias; oversize dropped
    let ver = m.ver.unwrap_or(Ver::V4);
    let mut expected: Vec<StoreEnt> = vec![];
    let mut kept: Vec<StoreEnt> = vec![];
    for e in &m.store {
        let too_big = m.link.peer_mps.map(|l| store_ent_size(e, ver, w) as u64 > l as u64).unwrap_or(false);
        if too_big {
            exp_rel.insert(e.id);
            r.label("c06.oversize-drop");
        } else {
            expected.push(e.clone());
            kept.push(e.clone());
        }
    }
    let mut sends: Vec<&AP> = c.sends();
    if skip_first_connack && !sends.is_empty() {
        sends.remove(0);
    }
    let got: Vec<(u8, u32)> = sends
        .iter()
        .map(|a| match a {
            AP::Publish { qos, pid, .. } => (*qos, pid.unwrap_or(0)),
            AP::Ack { kind: AckKind::Pubrel, pid, .. } => (3, *pid),
            other => (100 + other.type_nibble(), 0),
        })
        .collect();
    let exp: Vec<(u8, u32)> = expected.iter().map(|e| (e.kind, e.id)).collect();
    if !exp.is_empty() {
        r.label("c06.resume-retransmit");
    }
    if got != exp {
        r.viol("c06.d-retransmit", pre, format!("session resumed: expected retransmission of {exp:?} (kind 1/2 = PUBLISH QoS, 3 = PUBREL; id) right after CONNACK, got {got:?}: {}", c.describe()));
    } else {
        for (a, e) in sends.iter().zip(expected.iter()) {
            if let AP::Publish { dup, topic, props, payload, .. } = a {
                if !*dup || topic.is_empty() || alias_of(props).is_some() || topic != &e.topic || payload != &e.payload {
                    r.viol("c06.d-retransmit-content", pre, format!("retransmitted PUBLISH id {} must carry DUP, the full original topic {:?} and no alias: got {}", e.id, String::from_utf8_lossy(&e.topic), ap_short(a)));
                }
            }
        }
    }
    m.store = kept;
    // C12: every incomplete exchange of the resumed session continues on this connection and counts against
    // the peer's Receive Maximum - the retransmitted ones and the one whose PUBREL the application still
    // owes (its PUBLISH is unacknowledged by PUBCOMP) - except those just dropped as oversize
    m.out_n = m.ids.iter().filter(|(id, o)| matches!(o, Owner::Pub1 | Owner::Pub2 | Owner::Rel | Owner::RelOwed) && !exp_rel.contains(id)).count() as u32;
    if m.ids.values().any(|o| *o == Owner::RelOwed) {
        r.label("c12.resume-with-owed-pubrel");
    }
}

#[allow(clippy::too_many_arguments)]
fn on_send(m: &mut Mdl, pre: &Mdl, ap: &AP, c: &Call, r: &mut Rules, exp_rel: &mut BTreeSet<u32>, resumed: &mut bool, w: usize) {
    let ver = m.ver.unwrap_or(Ver::V4);
    match ap {
        AP::Connect { clean, keep_alive, props, .. } => {
            if c.sends().iter().any(|a| matches!(a, AP::Connect { .. })) {
                m.st = St::Connecting;
                m.as_client = true;
                m.link_up = true;
                m.persistent_before = m.persistent || m.keep_mark;
                m.keep_mark = false;
                m.established = false;
                m.persistent = match ver {
                    Ver::V4 => !*clean,
                    Ver::V5 => prop_u32(props, 0x11).map(|v| v != 0).unwrap_or(false),
                };
                m.clean_start = *clean;
                if *clean {
                    m.new_session();
                    r.label("session.clean-start");
                } else {
                    m.mark_old_session();
                }
                m.link = LinkFacts { own_rm: prop_u16(props, 0x21), own_tam: prop_u16(props, 0x22).unwrap_or(0), own_mps: prop_u32(props, 0x27), ka_connect: *keep_alive, ..LinkFacts::default() };
                m.out_n = 0;
                m.in_unacked.clear();
                m.peer_alias.clear();
                m.app_alias.clear();
                m.recv_alias.clear();
            }
        }
        AP::Connack { sp, code, props, .. } => {
            if c.sends().iter().any(|a| matches!(a, AP::Connack { .. })) {
                m.connack_owed = false;
                if *code == 0 {
                    m.st = St::Connected;
                    m.established = true;
                    m.link.own_rm = prop_u16(props, 0x21);
                    m.link.own_tam = prop_u16(props, 0x22).unwrap_or(0);
                    m.link.own_mps = prop_u32(props, 0x27);
                    m.link.ska = prop_u16(props, 0x13);
                    if let (Ver::V5, Some(v)) = (ver, prop_u32(props, 0x11)) {
                        // the server's Session Expiry Interval overrides the client's
                        m.persistent = v != 0;
                        r.label("session.expiry-overridden");
                    }
                    *resumed = true;
                    if *sp {
                        r.label("session.resumed");
                        resume_rule(m, pre, c, r, exp_rel, true, w);
                    } else {
                        // session not present: the store is emptied and its identifiers are freed. After a clean
                        // start that already happened when the CONNECT was processed: what has accumulated since
                        // (a PUBLISH the client pipelined behind its CONNECT, publishes handed over early) belongs
                        // to the new session and stays.
                        r.label("session.not-present");
                        if !m.clean_start {
                            if !m.store.is_empty() || !m.ids.is_empty() {
                                r.label("session.not-present-discards");
                            }
                            // the earlier session goes; what was accepted / notified since the CONNECT stays and,
                            // if it is a packet, goes out now
                            m.drop_old_session();
                            if m.store.is_empty() {
                                if c.sends().len() > 1 {
                                    r.viol("c06.e-sent-on-new-session", pre, format!("session not present but packets are transmitted: {}", c.describe()));
                                }
                            } else {
                                r.label("session.not-present-keeps-early-packets");
                                resume_rule(m, pre, c, r, exp_rel, true, w);
                            }
                        } else {
                            // the new session's own packets, handed over since the CONNECT, go out now
                            r.label("session.clean-start-early-packets");
                            resume_rule(m, pre, c, r, exp_rel, true, w);
                        }
                    }
                } else {
                    m.st = St::Disc;
                }
            }
        }
        AP::Publish { qos, pid, topic, .. } => {
            let accepted = !c.has_error();
            let sent = c.sent_publish(*pid).is_some();
            if *qos > 0 {
                let id = pid.unwrap();
                if accepted {
                    m.ids.insert(id, if *qos == 1 { Owner::Pub1 } else { Owner::Pub2 });
                    m.old_ids.remove(&id);
                    if sent && pre.st == St::Connected {
                        // C12: accepted only while fewer than M exchanges are incomplete
                        if let (Some(mx), Some(Ver::V5)) = (m.link.peer_rm, m.ver) {
                            if m.out_n >= mx as u32 {
                                r.viol("c12.accepted-over-limit", pre, format!("QoS {} PUBLISH transmitted although {} exchanges are incomplete and the peer's Receive Maximum is {}", qos, m.out_n, mx));
                            }
                            r.label("c12.accepted-under-limit");
                        }
                        m.out_n += 1;
                    }
                    r.label(if sent { "pub.sent" } else { "pub.accepted-not-sent" });
                } else {
                    // refused: the exchange never started; the freshly acquired id must be announced free
                    exp_rel.insert(id);
                    r.label("pub.refused");
                    note(Note::RefusedPublish);
                    if c.errors().contains(&MqttError::ReceiveMaximumExceeded) && pre.st == St::Disc {
                        r.viol("c12.refused-without-connection", pre, format!("PUBLISH refused with ReceiveMaximumExceeded while disconnected: no peer, no Receive Maximum in force (a limit of the closed connection is still applied): {}", c.describe()));
                    }
                    if c.errors().contains(&MqttError::ReceiveMaximumExceeded) {
                        r.label("c12.refused-at-limit");
                        if let Some(mx) = m.link.peer_rm {
                            if m.out_n < mx as u32 && pre.st == St::Connected {
                                r.viol("c12.refused-below-limit", pre, format!("PUBLISH refused with ReceiveMaximumExceeded although only {} exchanges are incomplete (Receive Maximum {})", m.out_n, mx));
                            }
                        }
                    }
                }
                let intent = intent_topic(pre, &r.act).unwrap_or_else(|| topic.clone());
                note(Note::Pub { id, q: *qos, topic: intent, accepted, sent });
            } else {
                r.label(if sent { "pub0.sent" } else { "pub0.refused" });
            }
            // application's alias view: a registration counts once send() accepted the PUBLISH without an
            // error (the application cannot tell whether it was transmitted at once or only stored)
            if accepted && (sent || *qos > 0) {
                if let Act::Pub { t, al: Al::Reg(a), .. } = &r.act {
                    m.app_alias.insert(*a, *t);
                }
            }
        }
        AP::Subscribe { pid, .. } | AP::Unsubscribe { pid, .. } => {
            let sent = !c.sends().is_empty() && !c.has_error();
            if sent {
                m.ids.insert(*pid, if matches!(ap, AP::Subscribe { .. }) { Owner::Sub } else { Owner::Unsub });
                r.label("sub.sent");
            } else {
                exp_rel.insert(*pid);
                r.label("sub.refused");
            }
        }
        AP::Ack { kind: AckKind::Pubrel, pid, .. } => {
            // manual PUBREL for an exchange the model already moved to Rel: accepted means
            // transmitted or (not connected) queued in the store
            // C11 / C06: the PUBREL of a persistent session is accepted in every connection status (transmitted
            // or queued) - the only refusal the statement allows is "not connected and not persistent"
            if c.has_error() && pre.persistent && matches!(m.ids.get(pid), Some(&Owner::RelOwed)) && !c.errors().contains(&MqttError::PacketTooLarge) {
                r.viol("c11.pubrel-refused-persistent", pre, format!("the PUBREL the application owes for id {pid} on a persistent session is refused in status {:?}: {}", pre.st, c.describe()));
                r.viol("c06.pubrel-refused-persistent", pre, format!("the PUBREL the application owes for id {pid} on a persistent session is refused in status {:?}: {}", pre.st, c.describe()));
            }
            if !c.has_error() && matches!(m.ids.get(pid), Some(&Owner::RelOwed) | Some(&Owner::Rel)) {
                m.ids.insert(*pid, Owner::Rel);
                r.label("pubrel.manual");
                note(Note::Rel { id: *pid });
                if c.sends().is_empty() {
                    r.label("pubrel.queued-offline");
                }
            }
        }
        _ => {}
    }
}

#[allow(clippy::too_many_arguments)]
fn on_recv(m: &mut Mdl, pre: &Mdl, ap: &AP, frame: &[u8], c: &Call, r: &mut Rules, exp_rel: &mut BTreeSet<u32>, resumed: &mut bool, w: usize) {
    let ver = m.ver.unwrap_or(Ver::V4);
    let v5 = m.ver == Some(Ver::V5);
    let delivered = !c.recvs().is_empty();
    let errored = c.has_error();
    // C14 inbound: a frame larger than the locally announced maximum is not delivered and is answered
    if v5 {
        if let Some(l) = pre.link.own_mps {
            // (a client's limit is in force from its CONNECT on, so it covers the CONNACK; a server's own
            // limit is announced in its CONNACK and cannot cover the CONNECT)
            if frame.len() as u64 > l as u64 && !matches!(ap, AP::Connect { .. }) {
                r.label("c14.inbound-oversize");
                let disc = c.sends().iter().any(|a| matches!(a, AP::Disconnect { code: Some(0x95), .. }));
                if delivered {
                    r.viol("c14.oversize-delivered", pre, format!("received packet of {} bytes exceeds the announced Maximum Packet Size {} but was delivered: {}", frame.len(), l, c.describe()));
                } else if !disc && pre.st == St::Connected && pre.link.peer_mps.map(|p| p >= 4).unwrap_or(true) {
                    r.viol("c14.oversize-not-answered", pre, format!("received packet of {} bytes exceeds the announced Maximum Packet Size {} but no DISCONNECT(0x95) is sent: {}", frame.len(), l, c.describe()));
                } else if !disc && pre.st != St::Disc && !c.has_close() {
                    // the DISCONNECT cannot be sent (no CONNACK exchanged yet, or it would exceed the peer's own
                    // limit): the answer is then the bare close
                    r.label("c14.inbound-oversize-no-disconnect-possible");
                    r.viol("c14.oversize-not-closed", pre, format!("received packet of {} bytes exceeds the announced Maximum Packet Size {}; no DISCONNECT can be sent in this situation, but the connection is not closed either: {}", frame.len(), l, c.describe()));
                }
                return;
            }
        }
    }
    // C05 classification: delivered, answered as a protocol-level duplicate, or reported
    let dup_answer = c.sends().iter().any(|a| matches!(a, AP::Ack { kind: AckKind::Pubrec, .. } | AP::Ack { kind: AckKind::Pubcomp, .. }));
    if !delivered && !errored && !dup_answer {
        r.viol_sig("c05.unclassified", unclassified_sig(frame.first().copied().unwrap_or(0), pre), pre, format!("a complete {} frame was neither delivered, answered as a duplicate nor reported: {}", ap.kind_name(), c.describe()));
    }
    match ap {
        AP::Connect { ver: pv, clean, keep_alive, props, .. } => {
            if pre.st == St::Disc {
                if delivered {
                    if m.ver.is_none() {
                        m.ver = Some(*pv);
                        r.label("c17.version-adopted");
                    }
                    m.st = St::Connecting;
                    m.as_client = false;
                    m.link_up = true;
                    m.connack_owed = true;
                    m.persistent_before = m.persistent || m.keep_mark;
                    m.keep_mark = false;
                    m.established = false;
                    m.persistent = match pv {
                        Ver::V4 => !*clean,
                        Ver::V5 => prop_u32(props, 0x11).map(|v| v != 0).unwrap_or(false),
                    };
                    m.clean_start = *clean;
                    if *clean {
                        m.new_session();
                        r.label("session.clean-start");
                    } else {
                        m.mark_old_session();
                    }
                    m.link = LinkFacts { peer_rm: prop_u16(props, 0x21), peer_tam: prop_u16(props, 0x22).unwrap_or(0), peer_mps: prop_u32(props, 0x27), ka_connect: *keep_alive, ..LinkFacts::default() };
                    m.out_n = 0;
                    m.in_unacked.clear();
                    m.peer_alias.clear();
                    m.app_alias.clear();
                    m.recv_alias.clear();
                } else {
                    r.viol("c17.connect-refused", pre, format!("a valid CONNECT on a disconnected server is not delivered: {}", c.describe()));
                }
            } else {
                r.label("c17.connect-on-established");
                if delivered || !c.errors().iter().any(is_protocol_error_class) {
                    r.viol("c17.connect-on-established", pre, format!("CONNECT on an established connection must be a protocol error and must not be delivered: {}", c.describe()));
                }
                note(Note::MustNotChange { what: "CONNECT on an established connection", rule: "c17.connect-on-established-state" });
            }
        }
        AP::Connack { .. } if !pre.as_client && pre.st != St::Disc => {
            // a CONNACK reaching the side that received the CONNECT (possible for role Any)
            r.label("c17.connack-to-server-side");
            if delivered || !c.errors().iter().any(is_protocol_error_class) {
                r.viol("c17.connack-on-established", pre, format!("a CONNACK arriving at the side that acts as the server (it received the CONNECT) must be a protocol error and must not be delivered: {}", c.describe()));
                r.viol("c08.connack-to-server-side", pre, format!("a CONNACK arriving at the side that acts as the server is processed: {}", c.describe()));
            }
            note(Note::MustNotChange { what: "CONNACK at the server side", rule: "c17.connack-on-established-state" });
            note(Note::MustNotChange { what: "CONNACK at the server side", rule: "c08.connack-to-server-side-state" });
        }
        AP::Connack { sp, code, props, .. } => {
            if pre.st == St::Connecting {
                if !delivered {
                    r.viol("c17.connack-refused", pre, format!("a valid CONNACK answering our CONNECT is not delivered: {}", c.describe()));
                    return;
                }
                if *code == 0 {
                    m.st = St::Connected;
                    m.established = true;
                    m.link.peer_rm = prop_u16(props, 0x21);
                    m.link.peer_tam = prop_u16(props, 0x22).unwrap_or(0);
                    m.link.peer_mps = prop_u32(props, 0x27);
                    m.link.ska = prop_u16(props, 0x13);
                    if let (Ver::V5, Some(v)) = (ver, prop_u32(props, 0x11)) {
                        m.persistent = v != 0;
                        r.label("session.expiry-overridden");
                    }
                    if *sp {
                        *resumed = true;
                        r.label("session.resumed");
                        let sei0 = ver == Ver::V5 && prop_u32(props, 0x11) == Some(0);
                        if sei0 {
                            note(Note::Expiry0Resume);
                        }
                        if sei0 && !m.store.is_empty() && c.sends().is_empty() {
                            // nothing retransmitted: judged once, with the post state, in after_step
                        } else {
                            resume_rule(m, pre, c, r, exp_rel, false, w);
                        }
                    } else if !m.clean_start {
                        m.drop_old_session();
                        r.label("session.not-present");
                        if m.store.is_empty() {
                            if !c.sends().is_empty() {
                                r.viol("c06.e-sent-on-new-session", pre, format!("session not present but packets are transmitted: {}", c.describe()));
                            }
                        } else {
                            r.label("session.not-present-keeps-early-packets");
                            resume_rule(m, pre, c, r, exp_rel, false, w);
                        }
                    } else {
                        // after a clean start the new session began with the CONNECT: what the application has
                        // published since then is its own and goes out now
                        r.label("session.not-present");
                        r.label("session.clean-start-early-packets");
                        resume_rule(m, pre, c, r, exp_rel, false, w);
                    }
                } else {
                    // refused: the application gives the connection up
                    m.close_pending = true;
                }
            } else if pre.st == St::Connected {
                r.label("c17.connack-on-established");
                if delivered || !c.errors().iter().any(is_protocol_error_class) {
                    r.viol("c17.connack-on-established", pre, format!("CONNACK on an established connection must be a protocol error and must not be delivered: {}", c.describe()));
                    r.viol("c06.connack-on-established", pre, format!("a second CONNACK on an established connection is processed as a normal packet: {}", c.describe()));
                }
                note(Note::MustNotChange { what: "CONNACK on an established connection", rule: "c17.connack-on-established-state" });
                note(Note::MustNotChange { what: "CONNACK on an established connection", rule: "c06.connack-on-established-state" });
            }
        }
        AP::Publish { qos, pid, topic, props, .. } => {
            // receive-side alias model
            let al = alias_of(props);
            let mut alias_ok = true;
            let mut expect_topic: Option<Vec<u8>> = Some(topic.clone());
            if let Some(a) = al {
                let in_range = a >= 1 && a <= pre.link.own_tam;
                if topic.is_empty() {
                    match (in_range, pre.recv_alias.get(&a)) {
                        (true, Some(t)) => expect_topic = Some(t.clone()),
                        _ => {
                            alias_ok = false;
                            expect_topic = None;
                        }
                    }
                } else if in_range {
                    m.recv_alias.insert(a, topic.clone());
                } else {
                    alias_ok = false;
                }
            } else if topic.is_empty() {
                alias_ok = false;
            }
            // inbound Receive Maximum (one direction only)
            let mut over_limit = false;
            if *qos > 0 && v5 {
                if let (Some(mx), Some(id)) = (pre.link.own_rm, pid) {
                    if !pre.in_unacked.contains(id) && pre.in_unacked.len() >= mx as usize {
                        over_limit = true;
                        r.label("c12.inbound-over-limit");
                        let disc = c.sends().iter().any(|a| matches!(a, AP::Disconnect { code: Some(0x93), .. }));
                        if delivered || !disc || !errored {
                            r.viol("c12.inbound-excess", pre, format!("the peer has {} unacknowledged QoS>0 PUBLISH outstanding (announced Receive Maximum {}); the excess PUBLISH must be answered with DISCONNECT(0x93) and not delivered: {}", pre.in_unacked.len(), mx, c.describe()));
                        }
                    }
                }
            }
            // converse: below the limit nothing may be answered as an excess (a same-id resend on the same
            // connection is itself not allowed in v5.0 and is not judged: only a count strictly below the limit is)
            let below = pre.link.own_rm.map(|mx| pre.in_unacked.len() < mx as usize).unwrap_or(true);
            if below && v5 && *qos > 0 && pre.st == St::Connected && (c.errors().contains(&MqttError::ReceiveMaximumExceeded) || c.sends().iter().any(|a| matches!(a, AP::Disconnect { code: Some(0x93), .. }))) {
                r.viol("c12.inbound-false-excess", pre, format!("the peer has only {} unacknowledged QoS>0 PUBLISH outstanding on this connection (announced Receive Maximum {:?}) but the PUBLISH is answered as 'Receive Maximum exceeded': {}", pre.in_unacked.len(), pre.link.own_rm, c.describe()));
            }
            if !alias_ok && !over_limit {
                r.label("c13.recv-invalid-alias");
                if delivered || !c.errors().contains(&MqttError::TopicAliasInvalid) {
                    r.viol("c13.recv-invalid-alias", pre, format!("PUBLISH with an alias that is not bound on this connection (alias {al:?}, own Topic Alias Maximum {}) must be rejected as Topic Alias invalid: {}", pre.link.own_tam, c.describe()));
                }
            }
            if delivered {
                if let (Some(AP::Publish { topic: dt, .. }), Some(et)) = (c.recvs().first(), &expect_topic) {
                    if al.is_some() {
                        r.label("c13.recv-aliased-delivered");
                    }
                    if dt != et {
                        r.viol("c13.recv-wrong-topic", pre, format!("aliased PUBLISH delivered with topic {:?}, the binding on this connection is {:?}", String::from_utf8_lossy(dt), String::from_utf8_lossy(et)));
                    }
                }
            }
            if *qos > 0 {
                let id = pid.unwrap();
                if delivered || (!errored && !over_limit) {
                    m.in_unacked.insert(id);
                }
                if *qos == 2 {
                    let was = pre.q2_notified.contains(&id);
                    if delivered {
                        if was {
                            r.viol("c07.duplicate-delivery", pre, format!("QoS 2 PUBLISH id {id} notified again before PUBREL: {}", c.describe()));
                        }
                        m.q2_notified.insert(id);
                        if !was {
                            m.old_q2.remove(&id);
                        }
                        r.label("c07.first-delivery");
                    } else if errored {
                        // refused by validation: must not count as handled (checked against the real set below)
                        r.label("c07.refused-by-validation");
                    } else {
                        // suppressed
                        if !was {
                            r.viol("c07.swallowed", pre, format!("QoS 2 PUBLISH id {id} that passed validation was not notified although no earlier PUBLISH with this id is awaiting PUBREL: {}", c.describe()));
                        } else {
                            r.label("c07.duplicate-suppressed");
                            if pre.st == St::Connected && !c.sent_ack(AckKind::Pubrec, id) {
                                r.viol("c07.duplicate-not-answered", pre, format!("suppressed duplicate QoS 2 PUBLISH id {id} is not answered with PUBREC: {}", c.describe()));
                            }
                        }
                    }
                }
            }
        }
        AP::Ack { kind, pid, code, .. } => {
            let id = *pid;
            let owner = pre.ids.get(&id).copied();
            let err_code = code.map(|c| c >= 0x80).unwrap_or(false);
            match kind {
                AckKind::Pubrel => {
                    if delivered {
                        if m.q2_notified.remove(&id) {
                            r.label("c07.pubrel-releases");
                        }
                    }
                }
                AckKind::Puback | AckKind::Pubrec | AckKind::Pubcomp => {
                    let want = match kind {
                        AckKind::Puback => Owner::Pub1,
                        AckKind::Pubrec => Owner::Pub2,
                        _ => Owner::Rel,
                    };
                    if *kind == AckKind::Pubcomp && owner == Some(Owner::RelOwed) {
                        // PUBCOMP before the PUBREL was issued: the statement does not say whether this
                        // "matches"; follow the library, judge nothing
                        r.label("ack.pubcomp-before-pubrel");
                        if delivered {
                            m.store.retain(|e| !(e.id == id && e.kind == 3));
                            exp_rel.insert(id);
                            m.owed_rel.remove(&id);
                            if m.out_n > 0 {
                                m.out_n -= 1;
                            }
                        }
                    } else if owner == Some(want) {
                        r.label("ack.matching");
                        if !delivered {
                            r.viol("c06.matching-ack-refused", pre, format!("the matching {} for in-flight id {id} is not accepted: {}", kind.name(), c.describe()));
                            return;
                        }
                        match kind {
                            AckKind::Puback => {
                                m.store.retain(|e| !(e.id == id && e.kind == 1));
                                exp_rel.insert(id);
                                if m.out_n > 0 {
                                    m.out_n -= 1;
                                }
                            }
                            AckKind::Pubrec => {
                                m.store.retain(|e| !(e.id == id && e.kind == 2));
                                if err_code {
                                    exp_rel.insert(id);
                                    if m.out_n > 0 {
                                        m.out_n -= 1;
                                    }
                                    r.label("ack.pubrec-error");
                                } else {
                                    // with automatic responses the PUBREL is the library's business: transmitted when
                                    // connected, otherwise (a PUBREC the client pipelined behind its CONNECT) queued in the
                                    // store of a persistent session
                                    m.ids.insert(id, if c.sent_ack(AckKind::Pubrel, id) || pre.auto_pub { Owner::Rel } else { Owner::RelOwed });
                                    if pre.auto_pub && pre.st == St::Connected && !c.sent_ack(AckKind::Pubrel, id) {
                                        r.viol("c06.no-auto-pubrel", pre, format!("automatic responses are on but PUBREC {id} is not answered with PUBREL: {}", c.describe()));
                                    }
                                    if pre.auto_pub && pre.st != St::Connected {
                                        r.label("c06.auto-pubrel-while-not-connected");
                                        note(Note::Rel { id });
                                    }
                                }
                            }
                            _ => {
                                m.store.retain(|e| !(e.id == id && e.kind == 3));
                                exp_rel.insert(id);
                                if m.out_n > 0 {
                                    m.out_n -= 1;
                                }
                            }
                        }
                    } else {
                        r.label("ack.unexpected");
                        if delivered || !c.errors().iter().any(is_protocol_error_class) {
                            r.viol("c06.c-unexpected-ack", pre, format!("{} for id {id} matches nothing in flight (owner {:?}); it must be reported as a protocol error and not delivered: {}", kind.name(), owner, c.describe()));
                        }
                        note(Note::MustNotChange { what: "an acknowledgement that matches nothing in flight", rule: "c06.c-unexpected-ack-state" });
                    }
                }
            }
        }
        AP::Suback { pid, .. } | AP::Unsuback { pid, .. } => {
            let want = if matches!(ap, AP::Suback { .. }) { Owner::Sub } else { Owner::Unsub };
            if pre.ids.get(pid) == Some(&want) {
                if delivered {
                    exp_rel.insert(*pid);
                    r.label("suback.matching");
                } else {
                    r.viol("c08.matching-suback-refused", pre, format!("matching {} for id {pid} not accepted: {}", ap.kind_name(), c.describe()));
                }
            } else {
                r.label("suback.unexpected");
                if delivered {
                    r.viol("c08.unexpected-suback", pre, format!("{} for id {pid} matches no pending request but was delivered: {}", ap.kind_name(), c.describe()));
                }
            }
        }
        AP::Disconnect { .. } => {
            // the peer closes the transport after DISCONNECT
            if delivered {
                m.close_pending = true;
                m.peer_disc = true;
                if let AP::Disconnect { props: Some(p), .. } = ap {
                    if let Some(v) = prop_u32(p, 0x11) {
                        if m.as_client {
                            // not the server's to decide
                            r.label("session.expiry-in-disconnect-from-server");
                        } else {
                            m.persistent = v != 0 && m.persistent;
                            r.label("session.expiry-in-disconnect");
                        }
                    }
                }
            }
        }
        _ => {}
    }
    let _ = ver;
}

/// Checks against the post-step snapshot of the real object.
#[allow(clippy::too_many_arguments)]
pub fn after_step<P: Pid>(m: &mut Mdl, pre_m: &Mdl, pre: &VerifState, post: &VerifState, calls: &[Call], conn: &ConnBox<P>, r: &mut Rules) {
    let ver = m.ver.unwrap_or(Ver::V4);
    let w = P::W;
    let notes = take_notes();
    // decode the real store with the reference codec
    let mut real_store: Vec<AP> = vec![];
    let mut real_sizes: Vec<usize> = vec![];
    for b in &post.store {
        match rc::decode(ver, b, w) {
            Ok(ap) => {
                real_store.push(ap);
                real_sizes.push(b.len());
            }
            Err(e) => {
                r.viol("c06.store-undecodable", pre_m, format!("a stored packet does not decode with the reference codec ({e}): {}", crate::util::hex_trunc(b, 32)));
            }
        }
    }
    let in_store = |id: u32, kind: u8| {
        real_store.iter().any(|a| match a {
            AP::Publish { qos, pid, .. } => *qos == kind && *pid == Some(id),
            AP::Ack { kind: AckKind::Pubrel, pid, .. } => kind == 3 && *pid == id,
            _ => false,
        })
    };
    // size of a stored entry as the library holds it (the model does not track properties)
    let size_of = |id: u32, kind: u8| -> usize {
        real_store
            .iter()
            .zip(real_sizes.iter())
            .find(|(a, _)| match a {
                AP::Publish { qos, pid, .. } => *qos == kind && *pid == Some(id),
                AP::Ack { kind: AckKind::Pubrel, pid, .. } => kind == 3 && *pid == id,
                _ => false,
            })
            .map(|(_, n)| *n)
            .unwrap_or(0)
    };
    for n in &notes {
        match n {
            Note::Pub { id, q, topic, accepted, sent } => {
                let stored = in_store(*id, *q);
                if *accepted {
                    if !*sent && !stored {
                        r.viol("c06.a-dropped", pre_m, format!("QoS {q} PUBLISH id {id} was accepted without an error event but is neither requested for sending nor stored (silently dropped)"));
                        r.viol("c11.accepted-but-lost", pre_m, format!("QoS {q} PUBLISH id {id} handed to send(): no error event, not passed to the transport, not queued - neither of the outcomes the send gate has"));
                    }
                    if m.persistent && !stored {
                        r.viol("c06.b-not-stored", pre_m, format!("session is persistent but the accepted QoS {q} PUBLISH id {id} is not in the store"));
                    }
                    if stored {
                        m.store.push(StoreEnt { id: *id, kind: *q, topic: topic.clone(), payload: PAYLOAD.to_vec(), size: size_of(*id, *q) });
                        r.label("c06.stored");
                    }
                } else if stored {
                    r.viol("c06.refused-but-stored", pre_m, format!("QoS {q} PUBLISH id {id} was refused with an error but is in the store"));
                }
            }
            Note::Rel { id } => {
                let stored = in_store(*id, 3);
                // while a connection attempt that resumes a session is still pending (no CONNACK yet), the session
                // is the persistent one it was before the CONNECT: a never-established attempt leaves it as it was,
                // so whatever happens to its exchanges in that window must be kept like in any persistent session
                let pending_persistent = m.st != St::Connected && !m.established && m.persistent_before && !m.clean_start;
                if (m.persistent || pending_persistent) && !stored && m.ids.get(id) == Some(&Owner::Rel) {
                    r.viol("c06.b-pubrel-not-stored", pre_m, format!("session is persistent{} but the PUBREL id {id} is not in the store", if m.persistent { "" } else { " (the pending attempt would end it, but has not been established)" }));
                }
                if stored && !m.store.iter().any(|e| e.id == *id && e.kind == 3) {
                    m.store.push(StoreEnt { id: *id, kind: 3, topic: vec![], payload: vec![], size: size_of(*id, 3) });
                    r.label("c06.pubrel-stored");
                }
            }
            Note::Expiry0Resume => {
                let model_has = !m.store.is_empty() || !m.ids.is_empty() || !m.q2_notified.is_empty();
                let lib_wiped = post.store.is_empty() && post.qos2_publish_handled.is_empty() && post.pid_puback.is_empty() && post.pid_pubrec.is_empty() && post.pid_pubcomp.is_empty() && crate::conn::in_use_ids(&post.pid_free, if w == 2 { 65535 } else { u32::MAX as u64 }).is_empty();
                if model_has {
                    r.label("c06.expiry0-resume-with-state");
                }
                if model_has && lib_wiped {
                    r.viol("c06.expiry0-wipes-session", pre_m, format!("CONNACK(session present) with Session Expiry Interval 0: the session is present and only ends with this connection, but its state was discarded at once - {} stored packet(s) not retransmitted, in-flight ids {:?} freed without announcement, handled QoS 2 ids {:?} forgotten", m.store.len(), m.ids.iter().filter(|(_, o)| **o != Owner::App).map(|(i, _)| *i).collect::<Vec<_>>(), m.q2_notified));
                    // follow the library so that this one defect is reported once
                    m.new_session();
                }
            }
            Note::RefusedPublish => {
                // C11: "... the result is only an error event (plus release of the packet's identifier) and the
                // connection behaves afterwards as if the call had not been made"
                r.label("c11.refused-publish-checked");
                if pre != post {
                    let (names, text) = crate::util::debug_diff(pre, post);
                    r.viol("c11.refused-publish-state", pre_m, format!("a PUBLISH refused by send() left traces in {names:?}: {text}"));
                }
            }
            Note::MustNotChange { what, rule } => {
                if snapshot_session_scope(pre) != snapshot_session_scope(post) {
                    r.viol(rule, pre_m, format!("{what} changed session state: store {:?} -> {:?}, free ids {:?} -> {:?}, awaiting puback/pubrec/pubcomp {:?}/{:?}/{:?} -> {:?}/{:?}/{:?}", pre.store.len(), post.store.len(), pre.pid_free, post.pid_free, pre.pid_puback, pre.pid_pubrec, pre.pid_pubcomp, post.pid_puback, post.pid_pubrec, post.pid_pubcomp));
                }
            }
        }
    }
    // C06 (b): the exported store equals the model list
    let model_view: Vec<(u8, u32, Vec<u8>, Vec<u8>)> = m.store.iter().map(|e| (e.kind, e.id, e.topic.clone(), e.payload.clone())).collect();
    let real_view: Vec<(u8, u32, Vec<u8>, Vec<u8>)> = real_store
        .iter()
        .map(|a| match a {
            AP::Publish { qos, pid, topic, payload, .. } => (*qos, pid.unwrap_or(0), topic.clone(), payload.clone()),
            AP::Ack { pid, .. } => (3, *pid, vec![], vec![]),
            _ => (99, 0, vec![], vec![]),
        })
        .collect();
    if model_view != real_view {
        let f = |v: &Vec<(u8, u32, Vec<u8>, Vec<u8>)>| v.iter().map(|x| format!("({},{},{:?})", x.0, x.1, String::from_utf8_lossy(&x.2))).collect::<Vec<_>>().join(" ");
        r.viol("c06.b-store-diverged", pre_m, format!("exported store [{}] differs from the packets that must still be stored [{}] (kind 1/2 = PUBLISH QoS, 3 = PUBREL; id; topic)", f(&real_view), f(&model_view)));
        // resynchronise so that one defect is reported once
        m.store = real_view.iter().zip(real_sizes.iter()).map(|(x, n)| StoreEnt { kind: x.0, id: x.1, topic: x.2.clone(), payload: x.3.clone(), size: *n }).collect();
    }
    for a in &real_store {
        if let AP::Publish { dup, topic, props, .. } = a {
            if !*dup || topic.is_empty() || alias_of(props).is_some() {
                r.viol("c13.stored-form", pre_m, format!("a stored PUBLISH must carry DUP, the full topic and no alias: {}", ap_short(a)));
            }
        }
    }
    if !real_store.is_empty() {
        r.label("c06.store-nonempty");
    }
    // C14: once the session has been resumed under the peer's limit, no oversize packet is left in the store
    // (each one was dropped with its identifier released)
    if m.st == St::Connected && m.ver == Some(Ver::V5) {
        if let Some(l) = m.link.peer_mps {
            for b in &post.store {
                if b.len() as u64 > l as u64 && calls.iter().any(|c| c.sends().iter().any(|a| matches!(a, AP::Connack { .. })) || matches!(&c.kind, CallKind::Recv { ap: Some(AP::Connack { .. }), .. })) {
                    r.viol("c14.oversize-left-in-store", pre_m, format!("after the CONNACK a stored packet of {} bytes is still in the store although the peer's Maximum Packet Size is {}: {}", b.len(), l, crate::util::hex_trunc(b, 24)));
                }
            }
        }
    }
    // stored ids are in use
    let in_use: BTreeSet<u32> = crate::conn::in_use_ids(&post.pid_free, if w == 2 { 65535 } else { u32::MAX as u64 }).into_iter().map(|x| x as u32).collect();
    for v in &real_view {
        if !in_use.contains(&v.1) {
            r.viol("c06.stored-id-free", pre_m, format!("stored packet id {} is not in use", v.1));
        }
    }
    // C08: the in-use set equals the model set
    let model_ids: BTreeSet<u32> = m.ids.keys().copied().collect();
    if in_use != model_ids {
        let leaked: Vec<u32> = in_use.difference(&model_ids).copied().collect();
        let lost: Vec<u32> = model_ids.difference(&in_use).copied().collect();
        if !leaked.is_empty() {
            r.viol("c08.leak", pre_m, format!("ids {leaked:?} are in use although no exchange or application holds them (never announced as released)"));
        }
        if !lost.is_empty() {
            r.viol("c08.unannounced-release", pre_m, format!("ids {lost:?} were freed without a release announcement (holders: {:?})", lost.iter().map(|i| m.ids.get(i)).collect::<Vec<_>>()));
        }
        // resynchronise
        let owners = m.ids.clone();
        m.ids = in_use.iter().map(|i| (*i, owners.get(i).copied().unwrap_or(Owner::App))).collect();
    }
    // C08 / C06: the library only awaits an acknowledgement for an identifier whose exchange exists
    // (a stale entry would let a stray acknowledgement "match" and release someone else's identifier)
    for (set, name, want) in [
        (&post.pid_puback, "PUBACK", &[Owner::Pub1][..]),
        (&post.pid_pubrec, "PUBREC", &[Owner::Pub2][..]),
        (&post.pid_pubcomp, "PUBCOMP", &[Owner::Rel, Owner::RelOwed][..]),
        (&post.pid_suback, "SUBACK", &[Owner::Sub][..]),
        (&post.pid_unsuback, "UNSUBACK", &[Owner::Unsub][..]),
    ] {
        // (not judged between a failed transport write and the notify_closed() that must follow it:
        // the application released the identifier itself and the close drops the entry)
        if m.close_pending {
            break;
        }
        for id in set.iter() {
            let o = m.ids.get(&(*id as u32));
            if !o.map(|o| want.contains(o)).unwrap_or(false) {
                r.viol("c08.awaited-without-exchange", pre_m, format!("the connection awaits a {name} for identifier {id}, but no such exchange is in flight (holder: {o:?})"));
            }
        }
    }
    // C07: exported handled set == ids notified and not yet released
    let real_handled: BTreeSet<u32> = post.qos2_publish_handled.iter().map(|x| *x as u32).collect();
    if real_handled != m.q2_notified {
        r.viol("c07.handled-set", pre_m, format!("get_qos2_publish_handled() = {real_handled:?} but the ids notified and awaiting PUBREL are {:?}", m.q2_notified));
        m.q2_notified = real_handled;
    }
    // C12: vacancy while the server still owes the CONNACK: the peer's Receive Maximum is known from its CONNECT,
    // and every incomplete exchange of the session (all continue on this connection) already counts
    if m.st == St::Connecting && !m.as_client && m.ver == Some(Ver::V5) {
        if let Some(mx) = m.link.peer_rm {
            let n = m.ids.values().filter(|o| matches!(o, Owner::Pub1 | Owner::Pub2 | Owner::Rel | Owner::RelOwed)).count() as u32;
            let exp = (mx as u32).saturating_sub(n) as u16;
            let got = conn.vacancy();
            r.label("c12.vacancy-checked-connecting");
            if got != Some(exp) {
                r.viol("c12.vacancy-connecting", pre_m, format!("between CONNECT and CONNACK get_receive_maximum_vacancy_for_send() = {got:?}, expected Some({exp}) (the client announced Receive Maximum {mx}; {n} exchanges of the session are incomplete)"));
            }
        }
    }
    // C12: vacancy
    if m.st == St::Connected && m.ver == Some(Ver::V5) {
        if let Some(mx) = m.link.peer_rm {
            let exp = (mx as u32).saturating_sub(m.out_n) as u16;
            let got = conn.vacancy();
            r.label("c12.vacancy-checked");
            if m.out_n == 0 {
                r.label("c12.vacancy-full");
            }
            if exp == 0 {
                r.label("c12.vacancy-zero");
            }
            if got != Some(exp) {
                r.viol("c12.vacancy", pre_m, format!("get_receive_maximum_vacancy_for_send() = {got:?}, expected Some({exp}) (Receive Maximum {mx}, {} incomplete exchanges on this connection)", m.out_n));
                // resynchronise on the library's own count so one defect is reported once
                if let Some(g) = got {
                    m.out_n = (mx as u32).saturating_sub(g as u32);
                }
            }
        }
    }
    // C17: adopted version
    let lib_ver = match post.protocol_version {
        4 => Some(Ver::V4),
        5 => Some(Ver::V5),
        _ => None,
    };
    if lib_ver != m.ver {
        r.viol("c17.version", pre_m, format!("get_protocol_version() is {lib_ver:?}, expected {:?}", m.ver));
    }
    let _ = calls;
}
