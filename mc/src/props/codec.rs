//! C02 (round trip) and C03 (wire format vs independent reference codec): ENUM over the abstract
//! packet space of `genpk.rs`.
use crate::bridge::{self, Built, Pid};
use crate::genpk;
use crate::refcodec::{self as rc, Framed, Ver, AP};
use crate::report::{Report, Violation};
use crate::util::{guarded, hex_trunc};
use mqtt_protocol_core::mqtt::packet::{GenericPacket, GenericPacketTrait};
use serde_json::json;
use std::collections::BTreeMap;

#[derive(Default)]
struct Acc {
    evals: u64,
    accepted: u64,
    rejected: u64,
    inexpressible: u64,
    rewrites: u64,
    viols: Vec<Violation>,
    sample: Vec<serde_json::Value>,
    by_kind: BTreeMap<String, u64>,
}

fn concat_bufs<P: Pid>(p: &GenericPacket<P>) -> Vec<u8> {
    let mut v = vec![];
    for b in p.to_buffers() {
        v.extend_from_slice(&b);
    }
    v
}

fn wire_consistent(bytes: &[u8], size: usize, bufs: &[u8]) -> Option<String> {
    if size != bytes.len() {
        return Some(format!("size() = {} but the contiguous serialisation has {} bytes", size, bytes.len()));
    }
    if bufs != bytes {
        return Some("concatenated to_buffers() differs from to_continuous_buffer()".to_string());
    }
    match rc::frame_one(bytes) {
        Framed::Frame { used, minimal_rl, .. } => {
            if used != bytes.len() {
                return Some(format!("Remaining Length on the wire frames {} bytes but the serialisation has {}", used, bytes.len()));
            }
            if !minimal_rl {
                return Some("Remaining Length is not minimally encoded".into());
            }
            None
        }
        other => Some(format!("serialisation does not frame: {other:?}")),
    }
}

fn check_one<P: Pid>(prop: &str, ver: Ver, label: &str, ap: &AP, acc: &mut Acc) {
    acc.evals += 1;
    let mk = |rule: &str, field: &str, detail: String| Violation {
        rule: rule.into(),
        sig: format!("{rule}|{}|v{}|{}", ap.kind_name(), ver.level(), field),
        detail: format!("[{label}, id width {}] {detail}", P::W),
        config: format!("codec {} v{} w{}", ap.kind_name(), ver.level(), P::W),
        history: vec![json!(label), json!(format!("{ap:?}").chars().take(600).collect::<String>())],
    };
    let built = guarded(|| bridge::build::<P>(ap));
    let pkt = match built {
        Err(m) => {
            acc.viols.push(mk(&format!("{prop}.panic"), "build", format!("builder panicked: {m}")));
            return;
        }
        Ok(Built::Ok(p)) => p,
        Ok(Built::Rejected(_)) => {
            acc.rejected += 1;
            return;
        }
        Ok(Built::Inexpressible(_)) => {
            acc.inexpressible += 1;
            return;
        }
    };
    acc.accepted += 1;
    *acc.by_kind.entry(format!("v{} {}", ver.level(), ap.kind_name())).or_insert(0) += 1;
    if acc.sample.len() < 3 && acc.accepted % 997 == 1 {
        acc.sample.push(json!({"packet": label, "hex": hex_trunc(&pkt.to_continuous_buffer(), 24)}));
    }
    let r = guarded(|| {
        let mut v: Vec<(String, String, String)> = vec![];
        let bytes = pkt.to_continuous_buffer();
        let ty = bytes[0] >> 4;
        let flags = bytes[0] & 15;
        if prop == "c02" {
            if let Some(d) = wire_consistent(&bytes, pkt.size(), &concat_bufs(&pkt)) {
                v.push(("c02.lengths".into(), "serialise".into(), d));
            } else if let Framed::Frame { body, .. } = rc::frame_one(&bytes) {
                match bridge::parse_body::<P>(ver, ty, flags, &body) {
                    Some(Ok((p2, consumed))) => {
                        if p2 != pkt {
                            v.push(("c02.roundtrip".into(), "parse".into(), format!("parse(serialise(p)) != p; wire {}", hex_trunc(&bytes, 48))));
                        }
                        if consumed != body.len() {
                            v.push(("c02.consumed".into(), "parse".into(), format!("parse consumed {} of {} body bytes", consumed, body.len())));
                        }
                    }
                    Some(Err(e)) => v.push(("c02.roundtrip".into(), "parse".into(), format!("the parser rejects what the builder produced: {e:?}; wire {}", hex_trunc(&bytes, 48)))),
                    None => {}
                }
            }
            // v5 PUBLISH rewriting helpers keep the cached lengths consistent
            if let GenericPacket::V5_0Publish(p) = &pkt {
                let mut outs: Vec<(&str, GenericPacket<P>)> = vec![];
                outs.push(("set_dup", p.clone().set_dup(!p.dup()).into()));
                outs.push(("remove_topic_alias", p.clone().remove_topic_alias().into()));
                if let Ok(x) = p.clone().remove_topic_alias_add_topic("zz/rewritten".to_string()) {
                    outs.push(("remove_topic_alias_add_topic", x.into()));
                }
                outs.push(("remove_topic_add_topic_alias", p.clone().remove_topic_add_topic_alias(9).into()));
                if !p.props().iter().any(|q| matches!(q, mqtt_protocol_core::mqtt::packet::Property::TopicAlias(_))) {
                    outs.push(("add_topic_alias", p.clone().add_topic_alias(9).into()));
                }
                if p.topic_name().is_empty() {
                    if let Ok(x) = p.clone().add_extracted_topic_name("zz/extracted") {
                        outs.push(("add_extracted_topic_name", x.into()));
                    }
                }
                for (name, q) in outs {
                    let qb = q.to_continuous_buffer();
                    if let Some(d) = wire_consistent(&qb, q.size(), &concat_bufs(&q)) {
                        v.push(("c02.rewrite-lengths".into(), name.into(), format!("after {name}: {d}")));
                    } else if let Framed::Frame { body, flags, .. } = rc::frame_one(&qb) {
                        match bridge::parse_body::<P>(ver, 3, flags, &body) {
                            Some(Ok((q2, n))) => {
                                if q2.to_continuous_buffer() != qb || n != body.len() {
                                    v.push(("c02.rewrite-roundtrip".into(), name.into(), format!("after {name}: re-parse differs")));
                                }
                            }
                            Some(Err(e)) => {
                                // an empty topic without alias is not parseable by design: only produced by remove_topic_add_topic_alias + remove_topic_alias chains
                                if !(name == "remove_topic_alias" && p.topic_name().is_empty()) {
                                    v.push(("c02.rewrite-roundtrip".into(), name.into(), format!("after {name}: the parser rejects the rewritten packet: {e:?}")));
                                }
                            }
                            None => {}
                        }
                    }
                }
            }
        } else {
            // C03: byte equality with the independent encoder, and accessor equality after parsing
            // the reference encoding
            let want = rc::encode(ap, P::W);
            if bytes != want {
                let i = bytes.iter().zip(want.iter()).position(|(a, b)| a != b).unwrap_or(bytes.len().min(want.len()));
                v.push(("c03.bytes".into(), "encode".into(), format!("library bytes differ from the specification's encoding at offset {i}: library {} vs reference {}", hex_trunc(&bytes[i.saturating_sub(2)..], 16), hex_trunc(&want[i.saturating_sub(2).min(want.len())..], 16))));
            }
            if let Framed::Frame { body, ty, flags, .. } = rc::frame_one(&want) {
                match bridge::parse_body::<P>(ver, ty, flags, &body) {
                    Some(Ok((p2, _))) => {
                        // the bytes produced for the *parsed* packet are the specification's encoding too (a
                        // received packet that is forwarded re-serialises what it was read from)
                        let again = p2.to_continuous_buffer();
                        if again != want {
                            let i = again.iter().zip(want.iter()).position(|(a, b)| a != b).unwrap_or(again.len().min(want.len()));
                            v.push(("c03.parsed-bytes".into(), "parse".into(), format!("the packet parsed from the specification's encoding serialises differently at offset {i}: library {} vs reference {}", hex_trunc(&again[i.saturating_sub(2).min(again.len())..], 16), hex_trunc(&want[i.saturating_sub(2).min(want.len())..], 16))));
                        }
                        let back = bridge::read(&p2);
                        if &back != ap {
                            v.push(("c03.accessors".into(), "parse".into(), format!("accessors of the packet parsed from the reference encoding return {:?}, the field values are {:?}", format!("{back:?}").chars().take(300).collect::<String>(), format!("{ap:?}").chars().take(300).collect::<String>())));
                        }
                    }
                    Some(Err(e)) => v.push(("c03.parse".into(), "parse".into(), format!("the parser rejects the specification's encoding of a packet its builder accepts: {e:?}"))),
                    None => {}
                }
            }
            let back = bridge::read(&pkt);
            if &back != ap {
                v.push(("c03.accessors".into(), "build".into(), "accessors of the built packet do not return the field values it was built from".into()));
            }
            // packets derived with the public v5 PUBLISH rewriting helpers: their bytes are the
            // specification's encoding of the field values their accessors report
            if let GenericPacket::V5_0Publish(p) = &pkt {
                let mut outs: Vec<(&str, GenericPacket<P>)> = vec![];
                outs.push(("set_dup", p.clone().set_dup(!p.dup()).into()));
                if !p.topic_name().is_empty() {
                    outs.push(("remove_topic_alias", p.clone().remove_topic_alias().into()));
                    outs.push(("remove_topic_add_topic_alias", p.clone().remove_topic_add_topic_alias(9).into()));
                }
                if let Ok(x) = p.clone().remove_topic_alias_add_topic("zz/rewritten".to_string()) {
                    outs.push(("remove_topic_alias_add_topic", x.into()));
                }
                if !p.props().iter().any(|q| matches!(q, mqtt_protocol_core::mqtt::packet::Property::TopicAlias(_))) {
                    outs.push(("add_topic_alias", p.clone().add_topic_alias(9).into()));
                }
                if p.topic_name().is_empty() {
                    if let Ok(x) = p.clone().add_extracted_topic_name("zz/extracted") {
                        outs.push(("add_extracted_topic_name", x.into()));
                    }
                }
                for (name, q) in outs {
                    let qb = q.to_continuous_buffer();
                    let fields = bridge::read(&q);
                    let want = rc::encode(&fields, P::W);
                    if qb != want {
                        let i = qb.iter().zip(want.iter()).position(|(a, b)| a != b).unwrap_or(qb.len().min(want.len()));
                        v.push(("c03.rewrite-bytes".into(), name.into(), format!("after {name}: library bytes differ from the specification's encoding of the reported field values at offset {i}: library {} vs reference {}", hex_trunc(&qb[i.saturating_sub(2).min(qb.len())..], 16), hex_trunc(&want[i.saturating_sub(2).min(want.len())..], 16))));
                    }
                }
            }
        }
        v
    });
    match r {
        Ok(v) => {
            for (rule, field, d) in v {
                acc.viols.push(mk(&rule, &field, d));
            }
        }
        Err(m) => acc.viols.push(mk(&format!("{prop}.panic"), "serialise/parse", format!("panic: {m}"))),
    }
}

fn sweep(prop: &str, rep: &mut Report) {
    let thorough = rep.thorough();
    let level = if thorough { 1 } else { 0 };
    let d = 3;
    // work items: (version, width, kind index)
    let mut items: Vec<(Ver, usize, usize)> = vec![];
    for ver in [Ver::V4, Ver::V5] {
        let n = genpk::kinds(ver, 2, level).len();
        for w in [2usize, 4] {
            for k in 0..n {
                items.push((ver, w, k));
            }
        }
    }
    let results: Vec<Acc> = crate::util::par_map(items.len(), |i| {
        let (ver, w, k) = items[i];
        let kinds = genpk::kinds(ver, w, level);
        let kind = &kinds[k];
        let mut acc = Acc::default();
        // wide kinds (large property / length fields) get d, the small ones d + 1
        let wide = matches!(kind.name.as_str(), "CONNECT" | "PUBLISH" | "CONNACK" | "SUBSCRIBE");
        let dd = if wide { d } else { d + 1 };
        genpk::enumerate(kind, dd, &mut |label, ap| {
            if acc.viols.len() > 20 {
                return;
            }
            if w == 2 {
                check_one::<u16>(prop, ver, label, ap, &mut acc);
            } else {
                check_one::<u32>(prop, ver, label, ap, &mut acc);
            }
        });
        acc
    });
    // dense single-field length sweeps (every length 0..=600 quick, 0..=65535 thorough)
    let dense_max = if thorough { 65535 } else { 600 };
    let dense_items: Vec<(Ver, usize)> = vec![(Ver::V4, 2), (Ver::V5, 2), (Ver::V4, 4), (Ver::V5, 4)];
    let dense_results: Vec<Acc> = crate::util::par_map(dense_items.len(), |i| {
        let (ver, w) = dense_items[i];
        let mut acc = Acc::default();
        // 32-bit identifiers: the quick bound also in the thorough tier (the id width does not interact with lengths)
        let mx = if w == 4 { 600 } else { dense_max };
        genpk::dense(ver, mx, &mut |label, ap| {
            if acc.viols.len() > 20 {
                return;
            }
            if w == 2 {
                check_one::<u16>(prop, ver, label, ap, &mut acc);
            } else {
                check_one::<u32>(prop, ver, label, ap, &mut acc);
            }
        });
        acc
    });
    let mut results = results;
    results.extend(dense_results);
    let mut tot = Acc::default();
    for a in results {
        tot.evals += a.evals;
        tot.accepted += a.accepted;
        tot.rejected += a.rejected;
        tot.inexpressible += a.inexpressible;
        for v in a.viols {
            rep.violation(v);
        }
        for s in a.sample {
            rep.sample(s);
        }
        for (k, v) in a.by_kind {
            *tot.by_kind.entry(k).or_insert(0) += v;
        }
    }
    rep.set_cov("evaluations", json!(tot.evals));
    rep.set_cov("distinct_nontrivial", json!(tot.accepted));
    rep.set_cov("builder_rejected", json!(tot.rejected));
    rep.set_cov("inexpressible", json!(tot.inexpressible));
    rep.set_cov("accepted_by_kind", json!(tot.by_kind));
    rep.set_cov("exhaustive", json!(true));
    rep.set_cov("rule", json!(format!("all abstract packets with <= {d} simultaneously deviating fields from the per-kind default for CONNECT / CONNACK / PUBLISH / SUBSCRIBE and <= {d}+1 for the other kinds (29 kinds, u16 and u32 ids), deviation sets per field as in genpk.rs; plus dense single-field sweeps: every length 0..={dense_max} of each main string / binary field; distinct_nontrivial = packets the public builder accepted (all distinct by construction)")));
    rep.count(&format!("{prop}.accepted"), tot.accepted);
    rep.floor(&format!("{prop}.accepted"), 10_000);
    if tot.by_kind.len() != 29 {
        rep.machinery_errors.push(format!("only {} of 29 packet kinds produced accepted packets", tot.by_kind.len()));
    }
}

/// builder call patterns the abstract space cannot express (setters used without their companion)
fn builder_corner_cases(rep: &mut Report) {
    use mqtt_protocol_core::mqtt::packet as pk;
    let r = guarded(|| {
        let mut out: Vec<(String, String)> = vec![];
        // will properties without a will message
        let wp = vec![pk::Property::WillDelayInterval(pk::WillDelayInterval::new(5).unwrap())];
        if let Ok(c) = pk::v5_0::Connect::builder().client_id("c").unwrap().will_props(wp).build() {
            let bytes = c.to_continuous_buffer();
            if c.size() != bytes.len() {
                out.push(("will-props-without-will".into(), format!("size() {} != serialisation {}", c.size(), bytes.len())));
            }
            if let Framed::Frame { body, used, .. } = rc::frame_one(&bytes) {
                if used != bytes.len() {
                    out.push(("will-props-without-will".into(), "Remaining Length does not frame the packet".into()));
                }
                match pk::v5_0::Connect::parse(&body) {
                    Ok((p2, n)) => {
                        if p2 != c || n != body.len() {
                            out.push(("will-props-without-will".into(), format!("CONNECT built with will_props() but without will_message(): parse(serialise(p)) != p (the will properties are kept in the packet but not serialised); wire {}", hex_trunc(&bytes, 32))));
                        }
                    }
                    Err(e) => out.push(("will-props-without-will".into(), format!("parser rejects the built packet: {e:?}"))),
                }
            }
        }
        // will_message() called twice: the second call replaces the first
        {
            use mqtt_protocol_core::mqtt::packet::Qos;
            let b5 = pk::v5_0::Connect::builder().client_id("c").unwrap().will_message("w", b"x".to_vec(), Qos::AtLeastOnce, true).unwrap().will_message("w", b"x".to_vec(), Qos::ExactlyOnce, false).unwrap().build();
            if let Ok(c) = b5 {
                let bytes = c.to_continuous_buffer();
                if let Framed::Frame { body, .. } = rc::frame_one(&bytes) {
                    match pk::v5_0::Connect::parse(&body) {
                        Ok((p2, n)) => {
                            if p2 != c || n != body.len() || c.will_qos() != Qos::ExactlyOnce || c.will_retain() {
                                out.push(("will-message-twice".into(), format!("v5.0 CONNECT built with will_message(QoS 1, retain) then will_message(QoS 2, no retain): flags byte {:#04x}, will_qos() {:?}, will_retain() {}", body[7], c.will_qos(), c.will_retain())));
                            }
                        }
                        Err(e) => out.push(("will-message-twice".into(), format!("v5.0 CONNECT built with will_message(QoS 1, retain) then will_message(QoS 2, no retain) has Connect Flags {:#04x}; its own parser rejects it: {e:?}", body[7]))),
                    }
                }
            }
            let b4 = pk::v3_1_1::Connect::builder().client_id("c").unwrap().will_message("w", b"x".to_vec(), Qos::AtLeastOnce, true).unwrap().will_message("w", b"x".to_vec(), Qos::ExactlyOnce, false).unwrap().build();
            if let Ok(c) = b4 {
                let bytes = c.to_continuous_buffer();
                if let Framed::Frame { body, .. } = rc::frame_one(&bytes) {
                    match pk::v3_1_1::Connect::parse(&body) {
                        Ok((p2, n)) => {
                            if p2 != c || n != body.len() || c.will_qos() != Qos::ExactlyOnce || c.will_retain() {
                                out.push(("will-message-twice-v4".into(), format!("v3.1.1 CONNECT built with will_message twice: flags byte {:#04x}", body[7])));
                            }
                        }
                        Err(e) => out.push(("will-message-twice-v4".into(), format!("v3.1.1 CONNECT built with will_message(QoS 1, retain) then will_message(QoS 2, no retain) has Connect Flags {:#04x}; its own parser rejects it: {e:?}", body[7]))),
                    }
                }
            }
        }
        out
    });
    rep.count("c02.builder-corner-cases", 1);
    match r {
        Ok(v) => {
            for (class, d) in v {
                rep.violation(Violation { rule: "c02.roundtrip".into(), sig: format!("c02.roundtrip|CONNECT|{}|{class}", if class.ends_with("-v4") { "v4" } else { "v5" }), detail: d, config: "codec builder corner cases".into(), history: vec![json!(class)] });
            }
        }
        Err(m) => rep.violation(Violation { rule: "c02.panic".into(), sig: format!("c02.panic|corner|{}", crate::util::panic_sig(&m)), detail: m, config: "codec builder corner cases".into(), history: vec![] }),
    }
}

/// Packets at the size extremes: the largest Remaining Length the protocol can express (268 435 455),
/// one beyond it, and (thorough) more than 4 GiB of content, where a length computed in 32 bits wraps.
/// The builder may refuse; what it accepts must report a size equal to what it serialises and frame it.
/// Big buffers are never copied for the > 4 GiB cases (sizes are summed over the vectored form).
fn size_extremes(rep: &mut Report) {
    use crate::refcodec::{PVal, Prop};
    const MAX_RL: usize = 268_435_455;
    let thorough = rep.thorough();
    let mut cases: Vec<(String, Box<dyn Fn() -> AP>)> = vec![];
    // PUBLISH: payload chosen so that the Remaining Length is exactly MAX_RL + d
    for ver in [Ver::V4, Ver::V5] {
        for d in if thorough { vec![-1i64, 0, 1, 2] } else { vec![0i64, 1] } {
            let fixed = 2 + 1 + if ver == Ver::V5 { 1 } else { 0 }; // topic "a" (+ Property Length 0)
            let n = (MAX_RL as i64 + d) as usize - fixed;
            cases.push((format!("{ver:?} PUBLISH q0 with Remaining Length 268435455{d:+}"), Box::new(move || AP::Publish { ver, dup: false, qos: 0, retain: false, topic: b"a".to_vec(), pid: None, props: vec![], payload: vec![0x55; n] })));
        }
    }
    if thorough {
        // v3.1.1 SUBACK: n return codes -> Remaining Length 2 + n
        for d in [0i64, 1] {
            let n = (MAX_RL as i64 + d) as usize - 2;
            cases.push((format!("V4 SUBACK with Remaining Length 268435455{d:+}"), Box::new(move || AP::Suback { ver: Ver::V4, pid: 1, props: vec![], codes: vec![0; n] })));
        }
        // > 4 GiB: 32768 maximal User Properties (131 075 bytes each) in every v5.0 kind that carries
        // properties; 65 537 maximal filters in (UN)SUBSCRIBE; 2^32 + 10 payload bytes
        let big_props = || -> Vec<Prop> { (0..32768).map(|_| Prop { id: 0x26, val: PVal::Pair(vec![b'k'; 65535], vec![b'v'; 65535]) }).collect() };
        for k in genpk::kinds(Ver::V5, 2, 0) {
            let base = k.base.clone();
            let has_props = matches!(base, AP::Connect { .. } | AP::Connack { .. } | AP::Publish { .. } | AP::Ack { .. } | AP::Subscribe { .. } | AP::Suback { .. } | AP::Unsubscribe { .. } | AP::Unsuback { .. } | AP::Disconnect { .. } | AP::Auth { .. });
            if !has_props {
                continue;
            }
            cases.push((format!("V5 {} with 32768 maximal User Properties (4 295 065 600 bytes)", base.kind_name()), Box::new(move || {
                let mut a = base.clone();
                match &mut a {
                    AP::Connect { props, .. } | AP::Connack { props, .. } | AP::Publish { props, .. } | AP::Subscribe { props, .. } | AP::Suback { props, .. } | AP::Unsubscribe { props, .. } | AP::Unsuback { props, .. } => *props = big_props(),
                    AP::Ack { props, code, .. } | AP::Disconnect { props, code, .. } | AP::Auth { props, code } => {
                        if code.is_none() {
                            *code = Some(0);
                        }
                        *props = Some(big_props())
                    }
                    _ => {}
                }
                a
            })));
        }
        for ver in [Ver::V4, Ver::V5] {
            cases.push((format!("{ver:?} SUBSCRIBE with 65537 filters of 65535 bytes"), Box::new(move || AP::Subscribe { ver, pid: 1, props: vec![], entries: (0..65537).map(|_| (vec![b'f'; 65535], 0u8)).collect() })));
            cases.push((format!("{ver:?} UNSUBSCRIBE with 65537 filters of 65535 bytes"), Box::new(move || AP::Unsubscribe { ver, pid: 1, props: vec![], filters: (0..65537).map(|_| vec![b'f'; 65535]).collect() })));
            cases.push((format!("{ver:?} PUBLISH q0 with a payload of 2^32 + 10 bytes"), Box::new(move || AP::Publish { ver, dup: false, qos: 0, retain: false, topic: b"a".to_vec(), pid: None, props: vec![], payload: vec![0x55; (1usize << 32) + 10] })));
        }
    }
    let (mut n, mut accepted, mut refused) = (0u64, 0u64, 0u64);
    for (label, mk) in cases {
        n += 1;
        let label2 = label.clone();
        let r = guarded(move || -> Result<bool, String> {
            let ap = mk();
            let ver = ap.ver();
            let built = bridge::build::<u16>(&ap);
            drop(ap);
            let pkt = match built {
                Built::Ok(p) => p,
                _ => return Ok(false),
            };
            let size = pkt.size();
            let (total, head): (usize, Vec<u8>) = {
                let bufs = pkt.to_buffers();
                let total = bufs.iter().map(|b| b.len()).sum();
                let mut head = vec![];
                for b in bufs.iter() {
                    for x in b.iter().take(8usize.saturating_sub(head.len())) {
                        head.push(*x);
                    }
                    if head.len() >= 8 {
                        break;
                    }
                }
                (total, head)
            };
            if size != total {
                return Err(format!("size() = {size} but the vectored serialisation has {total} bytes"));
            }
            // Remaining Length on the wire (reference decoding of the variable byte integer)
            let (mut rl, mut mult, mut i) = (0usize, 1usize, 1usize);
            loop {
                let b = *head.get(i).ok_or("fixed header shorter than its Remaining Length")?;
                rl += (b & 0x7f) as usize * mult;
                mult *= 128;
                i += 1;
                if b & 0x80 == 0 {
                    break;
                }
                if i > 4 {
                    return Err("Remaining Length longer than four bytes".into());
                }
            }
            if i + rl != total {
                return Err(format!("Remaining Length on the wire is {rl} ({i} header bytes) but the serialisation has {total} bytes"));
            }
            if total <= 1 + 4 + MAX_RL {
                let bytes = pkt.to_continuous_buffer();
                if bytes.len() != total {
                    return Err(format!("to_continuous_buffer() has {} bytes, the vectored form {total}", bytes.len()));
                }
                if let Some(Ok((p2, consumed))) = bridge::parse_body::<u16>(ver, bytes[0] >> 4, bytes[0] & 15, &bytes[i..]) {
                    if p2 != pkt || consumed != rl {
                        return Err("parse(serialise(p)) != p at the largest Remaining Length".into());
                    }
                }
            }
            Ok(true)
        });
        match r {
            Ok(Ok(true)) => accepted += 1,
            Ok(Ok(false)) => refused += 1,
            Ok(Err(d)) => rep.violation(Violation { rule: "c02.lengths".into(), sig: format!("c02.lengths|size-extreme|{}", label2.split(" with ").next().unwrap_or("")), detail: format!("[{label2}] the builder accepts the packet but {d}"), config: "codec size extremes".into(), history: vec![json!(label2)] }),
            Err(m) => rep.violation(Violation { rule: "c02.panic".into(), sig: format!("c02.panic|size-extreme|{}", label2.split(" with ").next().unwrap_or("")), detail: format!("[{label2}] builder / serialiser panicked instead of refusing or producing a consistent packet: {m}"), config: "codec size extremes".into(), history: vec![json!(label2)] }),
        }
    }
    rep.count("c02.size-extreme-cases", n);
    rep.count("c02.size-extreme-accepted", accepted);
    rep.count("c02.size-extreme-refused", refused);
    rep.floor("c02.size-extreme-cases", 4);
}

pub fn c02(rep: &mut Report) {
    sweep("c02", rep);
    builder_corner_cases(rep);
    size_extremes(rep);
    rep.assume("every setter of every builder is used at most once per packet; long-length values (>= 16383) are applied to at most two fields at a time; SSO feature builds are exercised by the thorough wrapper through separate harness builds");
}

pub fn c03(rep: &mut Report) {
    sweep("c03", rep);
    constants(rep);
    rep.assume("the reference codec (refcodec.rs) was written from the OASIS specification texts and shares no code or constants with the library; a disagreement is examined on the specification text");
}

/// numeric constants, exhaustively over all 256 byte values
fn constants(rep: &mut Report) {
    use mqtt_protocol_core::mqtt::packet::{FixedHeader, PacketType, PropertyId};
    use mqtt_protocol_core::mqtt::result_code::*;
    let mut n = 0u64;
    let mut bad: Vec<String> = vec![];
    for v in 0..=255u8 {
        n += 1;
        let defined = rc::prop_type(v).is_some();
        match PropertyId::try_from(v) {
            Ok(p) => {
                if !defined || p.as_u8() != v {
                    bad.push(format!("PropertyId accepts 0x{v:02x}"));
                }
            }
            Err(_) => {
                if defined {
                    bad.push(format!("PropertyId rejects 0x{v:02x} ({})", rc::prop_name(v)));
                }
            }
        }
        macro_rules! rcode {
            ($t:ident, $set:expr, $name:expr) => {{
                n += 1;
                let ok = $t::try_from(v).map(|x| x as u8 == v).unwrap_or(false);
                if ok != $set.contains(&v) {
                    bad.push(format!("{} 0x{v:02x}: library {} / specification {}", $name, ok, $set.contains(&v)));
                }
            }};
        }
        rcode!(ConnectReturnCode, rc::connack_codes_v4(), "ConnectReturnCode");
        rcode!(ConnectReasonCode, rc::connack_codes_v5(), "ConnectReasonCode");
        rcode!(PubackReasonCode, rc::puback_codes(), "PubackReasonCode");
        rcode!(PubrecReasonCode, rc::pubrec_codes(), "PubrecReasonCode");
        rcode!(PubrelReasonCode, rc::pubrel_codes(), "PubrelReasonCode");
        rcode!(PubcompReasonCode, rc::pubcomp_codes(), "PubcompReasonCode");
        rcode!(SubackReturnCode, rc::suback_codes_v4(), "SubackReturnCode");
        rcode!(SubackReasonCode, rc::suback_codes_v5(), "SubackReasonCode");
        rcode!(UnsubackReasonCode, rc::unsuback_codes(), "UnsubackReasonCode");
        rcode!(DisconnectReasonCode, rc::disconnect_codes(), "DisconnectReasonCode");
        rcode!(AuthReasonCode, rc::auth_codes(), "AuthReasonCode");
        n += 1;
        let spec_fh = matches!(v, 0x10 | 0x20 | 0x30 | 0x40 | 0x50 | 0x62 | 0x70 | 0x82 | 0x90 | 0xA2 | 0xB0 | 0xC0 | 0xD0 | 0xE0 | 0xF0);
        if FixedHeader::try_from(v).is_ok() != spec_fh {
            bad.push(format!("FixedHeader 0x{v:02x}"));
        }
        if PacketType::try_from(v).is_ok() != (1..=15).contains(&v) {
            bad.push(format!("PacketType {v}"));
        }
    }
    rep.count("c03.constants-checked", n);
    for b in bad {
        rep.violation(Violation { rule: "c03.constant".into(), sig: format!("c03.constant|{}", b.split(' ').next().unwrap_or("")), detail: format!("numeric constant disagrees with the specification: {b}"), config: "constants".into(), history: vec![json!(b)] });
    }
}

pub fn replay(v: &serde_json::Value) -> Result<Vec<String>, String> {
    Ok(vec![format!("packet: {}", v["history"][0]), format!("fields: {}", v["history"][1]), format!("detail: {}", v["detail"])])
}
