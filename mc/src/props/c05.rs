//! C05 — no peer-controlled input can panic or wedge a connection (reach x stimulus).
use super::epc::*;
use crate::conn::RoleK;
use crate::ep::*;
use crate::explore::Limits;
use crate::refcodec::{AckKind, Ver};
use crate::report::Report;
use std::sync::Arc;

fn reach_alph(v5: bool) -> Alph {
    Alph {
        pub_q: vec![0, 1, 2],
        topics: 1,
        als: if v5 { vec![Al::No, Al::Reg(1)] } else { vec![Al::No] },
        sub: true,
        unsub: true,
        ping: true,
        disconnect: true,
        auth: true,
        peer_pub_q: vec![0, 1, 2],
        peer_ids: vec![1, 2],
        peer_dup: true,
        peer_als: if v5 { vec![Al::No, Al::Reg(1), Al::Use(1)] } else { vec![] },
        peer_acks: vec![AckKind::Puback, AckKind::Pubrec, AckKind::Pubrel, AckKind::Pubcomp],
        peer_ack_ids: vec![1, 2],
        peer_ack_err: true,
        peer_sub: true,
        peer_ping: true,
        peer_disconnect: true,
        peer_auth: true,
        second_connack: true,
        second_connect: true,
        timers: true,
        spontaneous_close: true,
        reply_err: true,
        pub_any_status: true,
        defer_pubrel: true,
        ..Alph::default()
    }
}

pub fn configs(thorough: bool) -> Vec<EpCfg> {
    let mut v = vec![];
    let level = if thorough { 1 } else { 0 };
    let stim4 = Arc::new(crate::stim::stimuli(Ver::V4, 2, level));
    let stim5 = Arc::new(crate::stim::stimuli(Ver::V5, 2, level));
    let both: Arc<Vec<(String, Vec<u8>)>> = Arc::new(stim4.iter().cloned().chain(stim5.iter().filter(|s| s.0.starts_with("CONNECT")).cloned()).collect());
    // option flags: bit0 auto_pub, bit1 auto_ping, bit2 offline, bit3 auto_map, bit4 auto_replace
    let flag_sets: Vec<u8> = if thorough { (0..32).collect() } else { vec![0, 1, 2, 4, 8, 16, 3] };
    for (role, ver) in [
        (RoleK::Client, Some(Ver::V4)),
        (RoleK::Client, Some(Ver::V5)),
        (RoleK::Server, Some(Ver::V4)),
        (RoleK::Server, Some(Ver::V5)),
        (RoleK::Server, None),
        (RoleK::Any, Some(Ver::V4)),
        (RoleK::Any, Some(Ver::V5)),
        (RoleK::Any, None),
    ] {
        for &f in &flag_sets {
            if ver != Some(Ver::V5) && f & 0b11000 != 0 && !(thorough && f & 0b00111 == 0) {
                continue; // alias options only matter for v5
            }
            if !thorough && role == RoleK::Any && f != 3 {
                continue;
            }
            if !thorough && ver.is_none() && f != 3 {
                continue;
            }
            let mut c = EpCfg::new(&cfg_name("c05", role, ver, &format!("flags={f:05b}")), role, ver);
            c.auto_pub = f & 1 != 0;
            c.auto_ping = f & 2 != 0;
            c.offline = f & 4 != 0;
            c.auto_map = f & 8 != 0;
            c.auto_replace = f & 16 != 0;
            c.pingresp_to = 5;
            c.window = 2;
            let v5 = ver != Some(Ver::V4);
            c.alph = reach_alph(ver == Some(Ver::V5));
            c.connects = vec![ConnProf::basic(true), ConnProf { ka: 1, ..ConnProf::basic(false) }];
            c.connacks = vec![AckProf::basic(false), AckProf::basic(true), AckProf { ok: false, ..AckProf::basic(false) }];
            if v5 && ver.is_some() {
                c.connects.push(ConnProf { rm: Some(1), tam: Some(1), mps: Some(20), ..ConnProf::basic(false) });
                c.connacks.push(AckProf { rm: Some(1), tam: Some(1), mps: Some(4), ska: Some(1), ..AckProf::basic(true) });
            }
            c.stimuli = match ver {
                Some(Ver::V4) => stim4.clone(),
                Some(Ver::V5) => stim5.clone(),
                None => both.clone(),
            };
            c.groups = vec!["c05"];
            v.push(c);
        }
    }
    v
}

pub fn run(rep: &mut Report) {
    let thorough = rep.thorough();
    let cfgs = configs(thorough);
    let n = cfgs.len() as f64;
    for cfg in cfgs {
        let lim = if thorough { Limits::new(12, 40_000, (1500.0 / n).max(20.0)) } else { Limits::new(8, 1_200, 4.0) };
        run_cfg::<u16>(rep, cfg, lim, false);
    }
    // deep session histories with peer-chosen limits that shrink between connections (no raw stimuli): the
    // panic / wrap oracle along resumed sessions, where a peer-controlled CONNACK / CONNECT value meets
    // counters carried over from the session (closes in well under a second)
    for role in [RoleK::Client, RoleK::Server] {
        let mut c = EpCfg::new(&cfg_name("c05", role, Some(Ver::V5), "session-limits"), role, Some(Ver::V5));
        c.auto_pub = true;
        c.window = 3;
        c.alph = crate::props::epc::session_alph(true, 3);
        c.alph.pub_q = vec![1, 2];
        c.alph.peer_pub_q = vec![1, 2];
        c.alph.peer_ids = vec![1, 2];
        c.alph.peer_acks.push(AckKind::Pubrel);
        // (the message-expiry hook on every kind of store entry: a call that must stay a no-op for an exchange
        // past PUBREC must not set up a later panic either)
        c.alph.erase = true;
        c.connects = vec![ConnProf::basic(false), ConnProf { rm: Some(1), tam: Some(1), ..ConnProf::basic(false) }, ConnProf { rm: Some(2), mps: Some(9), ..ConnProf::basic(false) }];
        c.connacks = vec![AckProf::basic(true), AckProf { rm: Some(1), tam: Some(1), ..AckProf::basic(true) }, AckProf { rm: Some(2), mps: Some(9), ..AckProf::basic(true) }];
        c.groups = vec!["c05"];
        run_cfg::<u16>(rep, c, if thorough { Limits::new(200, 2_000_000, 300.0) } else { Limits::new(200, 120_000, 8.0) }, false);
    }
    // u32 identifiers: one client and one server configuration
    for (role, ver) in [(RoleK::Client, Ver::V5), (RoleK::Server, Ver::V4)] {
        let mut c = EpCfg::new(&cfg_name("c05-u32", role, Some(ver), "flags=00011"), role, Some(ver));
        c.auto_pub = true;
        c.auto_ping = true;
        c.window = 2;
        c.alph = reach_alph(ver == Ver::V5);
        c.stimuli = Arc::new(crate::stim::stimuli(ver, 4, 0));
        c.groups = vec!["c05"];
        run_cfg::<u32>(rep, c, if thorough { Limits::new(10, 10_000, 60.0) } else { Limits::new(7, 600, 3.0) }, false);
    }
    scripted_max_frame(rep);
    scripted_many_exchanges(rep);
    for f in ["c05.stim-delivered", "c05.stim-reported", "c05.stim-dup-answered", "c05.stim-bad-length", "c05.stim-incomplete", "c05.followup-client-handshake", "c05.followup-server-handshake", "c17.version-adopted"] {
        rep.floor(f, 1);
    }
    rep.assume("phase 1 (reach) uses contract-respecting local calls and valid peer traffic up to the stated depth / state cap; phase 2 fires every stimulus once from every reached state and is followed by close + fresh handshake; sequences of several malformed frames on one connection are not explored (the first one ends the connection)");
}

pub fn replay(config: &str, labels: &[String]) -> Result<Vec<String>, String> {
    if config.contains("u32") {
        return Err("u32 replays: rerun the check; the history is in the violation detail".into());
    }
    replay_in::<u16>(configs(true).into_iter().chain(configs(false)).collect(), config, labels)
}

/// One scripted extreme outside the enumerated stimulus space: the largest frame MQTT allows (Remaining Length
/// 268 435 455) carrying a PUBLISH with an empty topic and a bound alias - resolving the alias makes the packet
/// longer than any Remaining Length can express. Needs about 0.8 GB for a second or two.
/// More incomplete exchanges than a 16-bit counter holds (only possible with 32-bit identifiers): a resumed
/// session with 65 536 of them meets a peer Receive Maximum. Scripted, not enumerated; the verdict is the
/// totality clause (no panic, no wrap: the vacancy is 0 and stays 0 until enough acknowledgements have come).
fn scripted_many_exchanges(rep: &mut Report) {
    use crate::conn::ConnBox;
    use crate::refcodec::{self as rc, AckKind, PVal, Prop, AP};
    use mqtt_protocol_core::mqtt::packet::{GenericPacket, GenericStorePacket};
    let r = crate::util::guarded(|| {
        let mut out: Vec<String> = vec![];
        let ver = Ver::V5;
        let mk = |q: u8, id: u32| -> GenericStorePacket<u32> {
            match crate::bridge::build::<u32>(&AP::Publish { ver, dup: true, qos: q, retain: false, topic: b"a".to_vec(), pid: Some(id), props: vec![], payload: vec![] }).ok().unwrap() {
                GenericPacket::V5_0Publish(x) => GenericStorePacket::V5_0Publish(x),
                _ => unreachable!(),
            }
        };
        let export: Vec<GenericStorePacket<u32>> = (1..=40_000u32).map(|i| mk(1, i)).chain((40_001..=65_536u32).map(|i| mk(2, i))).collect();
        for as_server in [true, false] {
            let mut c = ConnBox::<u32>::new(if as_server { RoleK::Server } else { RoleK::Client }, Some(ver));
            c.restore_packets(export.clone());
            let rm = vec![Prop { id: 0x21, val: PVal::U16(10) }];
            if as_server {
                let mut props = vec![Prop { id: 0x11, val: PVal::U32(100) }];
                props.extend(rm);
                let _ = c.recv_all(&rc::encode(&AP::Connect { ver, clean: false, keep_alive: 0, client_id: b"c".to_vec(), will: None, user: None, pass: None, props }, 4));
                if c.vacancy() != Some(0) {
                    out.push(format!("server, 65536 incomplete exchanges, client Receive Maximum 10: vacancy {:?} after the CONNECT", c.vacancy()));
                }
                let _ = c.send(crate::bridge::build::<u32>(&AP::Connack { ver, sp: true, code: 0, props: vec![] }).ok().unwrap());
            } else {
                let _ = c.send(crate::bridge::build::<u32>(&AP::Connect { ver, clean: false, keep_alive: 0, client_id: b"c".to_vec(), will: None, user: None, pass: None, props: vec![Prop { id: 0x11, val: PVal::U32(100) }] }).ok().unwrap());
                let _ = c.recv_all(&rc::encode(&AP::Connack { ver, sp: true, code: 0, props: rm }, 4));
            }
            if c.vacancy() != Some(0) {
                out.push(format!("{}: 65536 incomplete exchanges resumed under Receive Maximum 10: vacancy {:?}", if as_server { "server" } else { "client" }, c.vacancy()));
            }
            let _ = c.recv_all(&rc::encode(&AP::Ack { ver, kind: AckKind::Puback, pid: 1, code: None, props: None }, 4));
        }
        out
    });
    rep.count("c05.scripted-many-exchanges", 1);
    match r {
        Ok(v) => {
            for d in v {
                rep.violation(crate::report::Violation { rule: "c05.wrap".into(), sig: "c05.wrap|many-exchanges".into(), detail: d, config: "c05 scripted 65536 exchanges".into(), history: vec![serde_json::json!("u32 identifiers: restore 40000 PUBLISH QoS 1 + 25536 PUBLISH QoS 2; resume with peer Receive Maximum 10")] });
            }
        }
        Err(m) => rep.violation(crate::report::Violation { rule: "panic".into(), sig: format!("panic|{}|many-exchanges", crate::util::panic_sig(&m)), detail: format!("65536 incomplete exchanges (32-bit identifiers) resumed under a peer Receive Maximum: panic: {m}"), config: "c05 scripted 65536 exchanges".into(), history: vec![serde_json::json!("u32 identifiers: restore 40000 PUBLISH QoS 1 + 25536 PUBLISH QoS 2; resume with peer Receive Maximum 10")] }),
    }
}

fn scripted_max_frame(rep: &mut Report) {
    use crate::conn::{ConnBox, Ev};
    use crate::refcodec::{self as rc, PVal, Prop, AP};
    let r = crate::util::guarded(|| {
        let mut out: Vec<String> = vec![];
        let ver = Ver::V5;
        let mut c = ConnBox::<u16>::new(RoleK::Client, Some(ver));
        let connect = AP::Connect { ver, clean: true, keep_alive: 0, client_id: b"c".to_vec(), will: None, user: None, pass: None, props: vec![Prop { id: 0x22, val: PVal::U16(1) }] };
        let _ = c.send(crate::bridge::build::<u16>(&connect).ok().unwrap());
        let _ = c.recv_all(&rc::encode(&AP::Connack { ver, sp: false, code: 0, props: vec![] }, 2));
        // bind alias 1 to a topic of 8 bytes
        let _ = c.recv_all(&rc::encode(&AP::Publish { ver, dup: false, qos: 0, retain: false, topic: b"topic/ab".to_vec(), pid: None, props: vec![Prop { id: 0x23, val: PVal::U16(1) }], payload: vec![] }, 2));
        let payload = 268_435_455usize - (2 + 1 + 3);
        let mut frame: Vec<u8> = Vec::with_capacity(payload + 16);
        frame.extend_from_slice(&[0x30, 0xFF, 0xFF, 0xFF, 0x7F, 0x00, 0x00, 0x03, 0x23, 0x00, 0x01]);
        frame.resize(frame.len() + payload, b'p');
        let (lists, n) = c.recv_all(&frame);
        let evs: Vec<Ev> = lists.into_iter().flatten().collect();
        let delivered = evs.iter().any(|e| matches!(e, Ev::Recv { .. }));
        let reported = evs.iter().any(|e| matches!(e, Ev::Error(_)));
        if n != frame.len() {
            out.push(format!("only {n} of {} bytes consumed", frame.len()));
        }
        if !delivered && !reported {
            out.push("the frame was neither delivered nor reported".into());
        }
        out
    });
    rep.count("c05.scripted-max-frame", 1);
    {
        // the same boundary reached by local calls: automatic alias mapping of a maximum-size PUBLISH, and the
        // stored copy (full topic) of a maximum-size alias-only PUBLISH on a persistent session
        let r2 = crate::util::guarded(|| {
            let ver = Ver::V5;
            let payload_for = |fixed: usize| 268_435_455usize - fixed;
            // (a) auto-map
            let mut c = ConnBox::<u16>::new(RoleK::Client, Some(ver));
            c.set_auto_map(true);
            let _ = c.send(crate::bridge::build::<u16>(&AP::Connect { ver, clean: true, keep_alive: 0, client_id: b"c".to_vec(), will: None, user: None, pass: None, props: vec![] }).ok().unwrap());
            let _ = c.recv_all(&rc::encode(&AP::Connack { ver, sp: false, code: 0, props: vec![Prop { id: 0x22, val: PVal::U16(4) }] }, 2));
            let p = AP::Publish { ver, dup: false, qos: 0, retain: false, topic: b"a".to_vec(), pid: None, props: vec![], payload: vec![b'p'; payload_for(2 + 1 + 1)] };
            let e1 = c.send(crate::bridge::build::<u16>(&p).ok().unwrap());
            // (a') the same with a property block of 127 bytes: the alias property then also makes the Property
            // Length grow to two bytes - the rewritten packet needs 4 bytes more, the given one has 3 to spare
            let p = AP::Publish { ver, dup: false, qos: 0, retain: false, topic: b"b".to_vec(), pid: None, props: vec![Prop { id: 0x26, val: PVal::Pair(b"k".to_vec(), vec![b'v'; 121]) }], payload: vec![b'p'; 268_435_452usize - (2 + 1 + 1 + 127)] };
            let e1b = c.send(crate::bridge::build::<u16>(&p).ok().unwrap());
            let _ = e1b;
            // (b) persistent session, alias registered, alias-only QoS 1 PUBLISH at the maximum
            let mut d = ConnBox::<u16>::new(RoleK::Client, Some(ver));
            let _ = d.send(crate::bridge::build::<u16>(&AP::Connect { ver, clean: true, keep_alive: 0, client_id: b"c".to_vec(), will: None, user: None, pass: None, props: vec![Prop { id: 0x11, val: PVal::U32(100) }] }).ok().unwrap());
            let _ = d.recv_all(&rc::encode(&AP::Connack { ver, sp: false, code: 0, props: vec![Prop { id: 0x22, val: PVal::U16(4) }] }, 2));
            let _ = d.send(crate::bridge::build::<u16>(&AP::Publish { ver, dup: false, qos: 0, retain: false, topic: b"topic/ab".to_vec(), pid: None, props: vec![Prop { id: 0x23, val: PVal::U16(1) }], payload: vec![] }).ok().unwrap());
            let id = d.acquire().unwrap();
            let q = AP::Publish { ver, dup: false, qos: 1, retain: false, topic: vec![], pid: Some(id), props: vec![Prop { id: 0x23, val: PVal::U16(1) }], payload: vec![b'p'; payload_for(2 + 2 + 1 + 3)] };
            let e2 = d.send(crate::bridge::build::<u16>(&q).ok().unwrap());
            (e1.len(), e2.len())
        });
        rep.count("c05.scripted-max-frame", 2);
        if let Err(m) = r2 {
            rep.violation(crate::report::Violation { rule: "panic".into(), sig: format!("panic|{}|max-frame-send", crate::util::panic_sig(&m)), detail: format!("maximum-size PUBLISH handed to send() (automatic alias mapping / stored copy with the full topic): panic: {m}"), config: "c05 scripted maximum frame".into(), history: vec![serde_json::json!("client v5.0: (a) auto-map, CONNACK(Topic Alias Maximum 4), PUBLISH QoS 0 with Remaining Length 268435455, PUBLISH QoS 0 with a 127-byte property block and Remaining Length 268435452; (b) persistent session, alias 1 registered, PUBLISH QoS 1 empty topic + alias 1 with Remaining Length 268435455")] });
        }
    }
    match r {
        Ok(v) => {
            for d in v {
                rep.violation(crate::report::Violation { rule: "c05.max-frame".into(), sig: "c05.max-frame|classification".into(), detail: format!("largest legal frame (PUBLISH, empty topic + bound alias, Remaining Length 268435455): {d}"), config: "c05 scripted maximum frame".into(), history: vec![serde_json::json!("client v5.0: CONNECT(Topic Alias Maximum 1), CONNACK, PUBLISH topic/ab alias 1, PUBLISH empty topic alias 1 with Remaining Length 268435455")] });
            }
        }
        Err(m) => rep.violation(crate::report::Violation { rule: "panic".into(), sig: format!("panic|{}|max-frame", crate::util::panic_sig(&m)), detail: format!("largest legal frame (PUBLISH, empty topic + bound alias, Remaining Length 268435455): panic: {m}"), config: "c05 scripted maximum frame".into(), history: vec![serde_json::json!("client v5.0: CONNECT(Topic Alias Maximum 1), CONNACK, PUBLISH topic/ab alias 1, PUBLISH empty topic alias 1 with Remaining Length 268435455")] }),
    }
}
