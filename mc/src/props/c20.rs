//! C20 — ValueAllocator refines a set of free integers (engine ALLOC, full closure).
//!
//! World = the real `ValueAllocator<T>` plus a `BTreeSet` of free values. Every operation of the
//! alphabet is executed on both; answers must agree, and after every step the interval list
//! (hook `verif_intervals`) must be exactly the maximal runs of the model's free set.
use crate::explore::{Explorer, Limits, StepOut, World};
use crate::report::Report;
use mqtt_protocol_core::mqtt::ValueAllocator;
use num_traits::{NumCast, One, PrimInt};
use serde_json::json;
use std::collections::BTreeSet;
use std::fmt::Debug;

#[derive(Clone, Debug)]
pub enum Act {
    Allocate,
    Use(u64),
    Dealloc(u64),
    Clear,
    IsUsed(u64),
    FirstVacant,
    IntervalCount,
}

#[derive(Clone)]
pub struct AllocWorld<T: PrimInt + One + Debug> {
    real: ValueAllocator<T>,
    free: BTreeSet<u64>,
    lo: u64,
    hi: u64,
    tmax: u64,
    /// include release of values that are already free (set semantics: no-op)
    double_free: bool,
}

fn runs(free: &BTreeSet<u64>) -> Vec<(u64, u64)> {
    let mut out: Vec<(u64, u64)> = vec![];
    for &v in free {
        match out.last_mut() {
            Some(l) if l.1 + 1 == v => l.1 = v,
            _ => out.push((v, v)),
        }
    }
    out
}

impl<T: PrimInt + One + Debug + Send + Sync + 'static> AllocWorld<T> {
    pub fn new(lo: u64, hi: u64, double_free: bool) -> Self {
        let tmax = T::max_value().to_u64().unwrap();
        AllocWorld {
            real: ValueAllocator::new(<T as NumCast>::from(lo).unwrap(), <T as NumCast>::from(hi).unwrap()),
            free: (lo..=hi).collect(),
            lo,
            hi,
            tmax,
            double_free,
        }
    }
    /// the range with every value v, (v - lo) % period == offset, reserved: (hi - lo) / period free runs - far
    /// more than the handful a range of 5..8 values can have (the interval set is a B-tree: its shape, and with
    /// it the search path of a look-up, only changes with a dozen or more runs)
    pub fn new_comb(lo: u64, hi: u64, period: u64, offset: u64) -> Self {
        let mut w = Self::new(lo, hi, true);
        for v in lo..=hi {
            if (v - lo) % period == offset {
                assert!(w.real.use_value(Self::t(v)), "harness: comb value {v} must be free");
                w.free.remove(&v);
            }
        }
        w
    }
    fn t(v: u64) -> T {
        <T as NumCast>::from(v).unwrap()
    }
    fn candidates(&self) -> Vec<u64> {
        // [lowest-1, highest+1] ∪ {0, MAX}, clipped to the type
        let mut c: BTreeSet<u64> = BTreeSet::new();
        let a = self.lo.saturating_sub(1);
        let b = (self.hi + 1).min(self.tmax);
        for v in a..=b {
            c.insert(v);
        }
        c.insert(0);
        c.insert(self.tmax);
        c.into_iter().collect()
    }
    fn intervals(&self) -> Vec<(u64, u64)> {
        self.real
            .verif_intervals()
            .0
            .into_iter()
            .map(|(l, h)| (l.to_u64().unwrap(), h.to_u64().unwrap()))
            .collect()
    }
    fn cfg(&self) -> String {
        format!("{}[{}..={}]", std::any::type_name::<T>(), self.lo, self.hi)
    }
}

impl<T: PrimInt + One + Debug + Send + Sync + 'static> World for AllocWorld<T> {
    type Act = Act;
    fn enabled(&self) -> Vec<Act> {
        let mut v = vec![Act::Allocate, Act::Clear];
        for c in self.candidates() {
            v.push(Act::Use(c));
        }
        for c in self.lo..=self.hi {
            if self.double_free || !self.free.contains(&c) {
                v.push(Act::Dealloc(c));
            }
        }
        v
    }
    fn probes(&self) -> Vec<Act> {
        let mut v = vec![Act::FirstVacant, Act::IntervalCount];
        for c in self.candidates() {
            v.push(Act::IsUsed(c));
        }
        v
    }
    fn step(&mut self, a: &Act, out: &mut StepOut) {
        let cfg = self.cfg();
        match a {
            Act::Allocate => {
                let got = self.real.allocate().map(|v| v.to_u64().unwrap());
                let exp = self.free.iter().next().copied();
                if let Some(e) = exp {
                    self.free.remove(&e);
                    out.label("alloc.some");
                } else {
                    out.label("alloc.none");
                }
                out.say(|| format!("allocate -> {got:?} (model {exp:?})"));
                if got != exp {
                    out.viol("alloc.answer", "alloc.answer|allocate".into(), format!("{cfg}: allocate returned {got:?}, set model says {exp:?}"));
                }
            }
            Act::Use(v) => {
                let got = self.real.use_value(Self::t(*v));
                let exp = self.free.remove(v);
                out.label(if exp { "use.ok" } else { "use.refused" });
                out.say(|| format!("use_value({v}) -> {got} (model {exp})"));
                if got != exp {
                    let class = if *v < self.lo || *v > self.hi { "out-of-range" } else { "in-range" };
                    out.viol("alloc.answer", format!("alloc.answer|use_value|{class}"), format!("{cfg}: use_value({v}) returned {got}, set model says {exp}"));
                }
            }
            Act::Dealloc(v) => {
                let was_free = self.free.contains(v);
                self.real.deallocate(Self::t(*v));
                self.free.insert(*v);
                out.label(if was_free { "dealloc.already-free" } else { "dealloc.used" });
                out.say(|| format!("deallocate({v}) (was_free={was_free})"));
            }
            Act::Clear => {
                self.real.clear();
                self.free = (self.lo..=self.hi).collect();
                out.label("clear");
            }
            Act::IsUsed(v) => {
                let got = self.real.is_used(Self::t(*v));
                let in_range = *v >= self.lo && *v <= self.hi;
                let exp = in_range && !self.free.contains(v);
                out.label(if in_range { "is_used.in-range" } else { "is_used.out-of-range" });
                out.say(|| format!("is_used({v}) -> {got} (model {exp})"));
                if got != exp {
                    let class = if in_range { "in-range" } else { "out-of-range" };
                    out.viol("alloc.answer", format!("alloc.answer|is_used|{class}"), format!("{cfg}: is_used({v}) returned {got}, set model says {exp} (range {}..={})", self.lo, self.hi));
                }
            }
            Act::FirstVacant => {
                let got = self.real.first_vacant().map(|v| v.to_u64().unwrap());
                let exp = self.free.iter().next().copied();
                if got != exp {
                    out.viol("alloc.answer", "alloc.answer|first_vacant".into(), format!("{cfg}: first_vacant returned {got:?}, model {exp:?}"));
                }
            }
            Act::IntervalCount => {
                let got = self.real.interval_count();
                let exp = runs(&self.free).len();
                if got != exp {
                    out.viol("alloc.answer", "alloc.answer|interval_count".into(), format!("{cfg}: interval_count {got}, model {exp}"));
                }
            }
        }
        // representation invariant: sorted, disjoint, maximally merged, in range, function of the set
        let iv = self.intervals();
        let exp = runs(&self.free);
        if iv != exp {
            out.viol("alloc.repr", format!("alloc.repr|{}", kind(a)), format!("{cfg}: after {a:?} interval list {iv:?} != maximal runs of the free set {exp:?}"));
        }
        if exp.len() > 1 {
            out.label("repr.multi-interval");
        }
    }
    fn key(&self) -> u128 {
        crate::util::fp128(&(self.intervals(), &self.free))
    }
    fn sig_label(&self, a: &Act) -> String {
        match a {
            Act::Dealloc(v) | Act::Use(v) | Act::IsUsed(v) => {
                let class = if *v == u8::MAX as u64 || *v == u16::MAX as u64 || *v == u32::MAX as u64 { "type-max" } else if *v == 0 { "zero" } else { "interior" };
                format!("{}({class})", kind(a))
            }
            _ => kind(a).to_string(),
        }
    }
}

fn kind(a: &Act) -> &'static str {
    match a {
        Act::Allocate => "allocate",
        Act::Use(_) => "use_value",
        Act::Dealloc(_) => "deallocate",
        Act::Clear => "clear",
        Act::IsUsed(_) => "is_used",
        Act::FirstVacant => "first_vacant",
        Act::IntervalCount => "interval_count",
    }
}

fn run_ty<T: PrimInt + One + Debug + Send + Sync + 'static>(rep: &mut Report, nmax: u64) {
    let tmax = T::max_value().to_u64().unwrap();
    let tname = std::any::type_name::<T>();
    for n in 1..=nmax {
        let mid = tmax / 2;
        let mut placements = vec![0u64, 1, mid, tmax - (n - 1)];
        placements.dedup();
        for lo in placements {
            let hi = lo + n - 1;
            if hi > tmax {
                continue;
            }
            let w = AllocWorld::<T>::new(lo, hi, true);
            let cfg = format!("alloc {tname} [{lo}..={hi}]");
            let mut ex = Explorer::new(&cfg, Limits::new(64, 2_000_000, 120.0), rep);
            ex.merge_audit = false;
            let st = ex.run(w);
            // closure must reach all 2^n free sets unless violations pruned it
            if st.closed && st.pruned == 0 && st.states != (1u64 << n) {
                rep.machinery_errors.push(format!("{cfg}: expected {} representations, saw {}", 1u64 << n, st.states));
            }
        }
    }
}

/// Many free runs: from every "comb" state (every period-th value reserved) of ranges with 25..97 values, all
/// operation sequences of length <= 2 (every operation, every value, all queries after each step).
fn run_combs<T: PrimInt + One + Debug + Send + Sync + 'static>(rep: &mut Report, thorough: bool) {
    let tmax = T::max_value().to_u64().unwrap();
    let tname = std::any::type_name::<T>();
    let sizes: Vec<u64> = if thorough { vec![25, 49, 97, 129] } else { vec![49, 97] };
    for n in sizes {
        let mut placements = vec![1u64, tmax - (n - 1)];
        if thorough {
            placements.push(0);
        }
        for lo in placements {
            let hi = lo + n - 1;
            if hi > tmax {
                continue;
            }
            for (period, offset) in [(2u64, 1u64), (2, 0), (3, 1)] {
                if !thorough && (period, offset) == (2, 0) {
                    continue;
                }
                let w = AllocWorld::<T>::new_comb(lo, hi, period, offset);
                let cfg = format!("alloc {tname} [{lo}..={hi}] comb={period}/{offset}");
                let mut ex = Explorer::new(&cfg, Limits::new(2, 400_000, 60.0), rep);
                ex.merge_audit = false;
                ex.run(w);
                rep.count("alloc.comb-configurations", 1);
            }
        }
    }
}

/// Scripted (deterministic, non-random) long paths on a 2^16 range.
fn scripted_large(rep: &mut Report) {
    let r = crate::util::guarded(|| {
        let mut a: ValueAllocator<u16> = ValueAllocator::new(1, u16::MAX);
        let mut seen = vec![false; 65536];
        for _ in 1..=65535u32 {
            let v = a.allocate().expect("allocate must succeed while values remain") as usize;
            assert!(!seen[v], "value {v} handed out twice");
            seen[v] = true;
        }
        assert!(a.allocate().is_none(), "exhausted allocator must return None");
        assert_eq!(a.interval_count(), 0);
        for v in (2..=65534u16).step_by(2) {
            a.deallocate(v);
        }
        assert_eq!(a.interval_count(), 32767);
        for v in (1..=65535u16).step_by(2) {
            a.deallocate(v);
        }
        assert_eq!(a.interval_count(), 1, "freeing everything must collapse to one interval");
        assert_eq!(a.verif_intervals().0, vec![(1u16, 65535u16)]);
        assert!(a.use_value(65535));
        assert!(a.use_value(1));
        assert!(!a.use_value(1));
        assert_eq!(a.allocate(), Some(2));
        a.deallocate(1);
        assert_eq!(a.allocate(), Some(1));
        // u32 extremes
        let mut b: ValueAllocator<u32> = ValueAllocator::new(1, u32::MAX);
        assert!(b.use_value(u32::MAX));
        assert!(b.use_value(1));
        assert_eq!(b.allocate(), Some(2));
        b.deallocate(u32::MAX);
        b.deallocate(1);
        b.deallocate(2);
        assert_eq!(b.verif_intervals().0, vec![(1u32, u32::MAX)]);
    });
    rep.count("scripted.large-range", 1);
    if let Err(m) = r {
        rep.violation(crate::report::Violation {
            rule: "alloc.scripted".into(),
            sig: format!("alloc.scripted|{}", crate::util::panic_sig(&m)),
            detail: format!("scripted large-range path failed: {m}"),
            config: "scripted u16/u32 full range".into(),
            history: vec![json!("fill 1..=65535; free evens; free odds; refill; u32 extremes")],
        });
    }
}

pub fn run(rep: &mut Report) {
    let thorough = rep.thorough();
    rep.assume("deallocate(v) is only called for v inside [lowest, highest] (values outside the range can never have been handed out); releasing an already-free in-range value is part of the alphabet (set semantics: no-op)");
    let nmax = if thorough { 8 } else { 5 };
    run_ty::<u8>(rep, nmax);
    run_ty::<u16>(rep, nmax);
    run_ty::<u32>(rep, if thorough { 7 } else { 4 });
    run_combs::<u8>(rep, thorough);
    run_combs::<u32>(rep, thorough);
    if thorough {
        run_combs::<u16>(rep, thorough);
    }
    rep.floor("alloc.comb-configurations", 4);
    scripted_large(rep);
    rep.set_cov("exhaustive", json!(true));
    rep.set_cov("rule".into(), json!("closure of reachable (interval list, free set) pairs per instance; every operation of the alphabet executed from every state and compared with a BTreeSet model"));
    for f in ["alloc.some", "alloc.none", "use.ok", "use.refused", "dealloc.used", "dealloc.already-free", "clear", "is_used.in-range", "is_used.out-of-range", "repr.multi-interval"] {
        rep.floor(f, 1);
    }
}

pub fn replay(config: &str, labels: &[String]) -> Result<Vec<String>, String> {
    // config: "alloc <type> [lo..=hi]"
    let parts: Vec<&str> = config.split_whitespace().collect();
    if parts.len() < 3 {
        return Err(format!("cannot replay config {config:?}"));
    }
    let rng = parts[2].trim_matches(|c| c == '[' || c == ']');
    let (lo, hi) = rng.split_once("..=").ok_or("bad range")?;
    let (lo, hi): (u64, u64) = (lo.parse().map_err(|_| "lo")?, hi.parse().map_err(|_| "hi")?);
    // optional "comb=<period>/<offset>": the exploration started from that prepared state
    let comb: Option<(u64, u64)> = parts.get(3).and_then(|p| p.strip_prefix("comb=")).and_then(|p| p.split_once('/')).and_then(|(a, b)| Some((a.parse().ok()?, b.parse().ok()?)));
    macro_rules! go {
        ($t:ty) => {
            match comb {
                Some((p, o)) => crate::explore::replay(AllocWorld::<$t>::new_comb(lo, hi, p, o), labels),
                None => crate::explore::replay(AllocWorld::<$t>::new(lo, hi, true), labels),
            }
        };
    }
    match parts[1] {
        "u8" => go!(u8),
        "u16" => go!(u16),
        "u32" => go!(u32),
        t => Err(format!("unknown type {t}")),
    }
}
