//! Configuration grids of the endpoint-world properties C07, C08, C12, C13, C14, C15, C19.
use super::epc::*;
use crate::conn::RoleK;
use crate::ep::*;
use crate::explore::Limits;
use crate::refcodec::{self as rc, AckKind, Ver, AP};
use crate::report::Report;

const ROLES: [RoleK; 3] = [RoleK::Client, RoleK::Server, RoleK::Any];
const VERS: [Ver; 2] = [Ver::V4, Ver::V5];

fn run_all(rep: &mut Report, cfgs: Vec<EpCfg>, quick_states: usize, quick_wall: f64) {
    let thorough = rep.thorough();
    let n = cfgs.len().max(1) as f64;
    for cfg in cfgs {
        let lim = if thorough { Limits::new(400, 4_000_000, (1500.0 / n).max(30.0)) } else { Limits::new(400, quick_states, quick_wall) };
        run_cfg::<u16>(rep, cfg, lim, thorough);
    }
}

// ------------------------------------------------------------------------------------------
// C07

pub fn c07_configs(thorough: bool) -> Vec<EpCfg> {
    let mut v = vec![];
    for role in ROLES {
        for ver in VERS {
            for auto in [true, false] {
                if !thorough && role == RoleK::Any && !auto {
                    continue;
                }
                let mut c = EpCfg::new(&cfg_name("c07", role, Some(ver), &format!("auto={auto}")), role, Some(ver));
                c.auto_pub = auto;
                c.window = 1;
                c.alph = Alph {
                    peer_pub_q: vec![1, 2],
                    peer_ids: vec![1, 2],
                    peer_dup: true,
                    peer_acks: vec![AckKind::Pubrel],
                    peer_ack_ids: vec![1, 2, 3],
                    spontaneous_close: true,
                    reply_err: true,
                    topics: 1,
                    als: vec![Al::No],
                    ..Alph::default()
                };
                if ver == Ver::V5 {
                    // frames that fail validation: unknown alias, Receive Maximum excess
                    c.alph.peer_als = vec![Al::No, Al::Use(1)];
                    // a PUBREL that carries reason code 0x92 releases the identifier like any other
                    c.alph.peer_ack_err = true;
                    c.connects = vec![ConnProf::basic(true), ConnProf::basic(false), ConnProf { rm: Some(1), tam: Some(1), ..ConnProf::basic(false) }];
                    c.connacks = vec![AckProf::basic(false), AckProf::basic(true), AckProf { rm: Some(1), tam: Some(1), ..AckProf::basic(true) }];
                }
                c.alph.early_peer_traffic = true;
                c.groups = vec!["c07"];
                v.push(c.clone());
                // both directions at once: outbound QoS 1 / 2 exchanges share the numeric id space with the
                // inbound ones; completing an outbound exchange must not touch the inbound handled set
                if auto && (thorough || role != RoleK::Any) {
                    let mut b = c;
                    b.name = cfg_name("c07", role, Some(ver), "bidirectional");
                    b.alph.pub_q = vec![1, 2];
                    b.alph.peer_pub_q = vec![2];
                    b.alph.peer_als = vec![];
                    b.alph.reply_err = false;
                    b.alph.peer_acks = vec![AckKind::Pubrel, AckKind::Puback, AckKind::Pubrec, AckKind::Pubcomp];
                    b.alph.peer_ack_ids = vec![1, 2];
                    // (the option setters are ordinary calls, also between connections and around an attempt that
                    // is never established: they must not change what the session remembers)
                    if role != RoleK::Any {
                        b.alph.toggle_opts = vec![1];
                    }
                    b.connects = vec![ConnProf::basic(true), ConnProf::basic(false)];
                    b.connacks = vec![AckProf::basic(false), AckProf::basic(true)];
                    v.push(b);
                }
            }
        }
    }
    v.extend(large_id_configs("c07", "c07", thorough));
    v.extend(oversized_reply_configs("c07", "c07", thorough));
    v
}
/// exchanges with large identifier values in both directions (the application reserves its own with
/// register_packet_id): 256 and the type maximum - the session alphabets otherwise use 1..3
pub fn large_id_configs(prefix: &str, group: &'static str, thorough: bool) -> Vec<EpCfg> {
    let mut v = vec![];
    for role in [RoleK::Client, RoleK::Server] {
        for ver in VERS {
            if !thorough && !(role == RoleK::Client && ver == Ver::V5) && !(role == RoleK::Server && ver == Ver::V4) {
                continue;
            }
            let mut c = EpCfg::new(&cfg_name(prefix, role, Some(ver), "large-ids"), role, Some(ver));
            c.auto_pub = false;
            c.window = 2;
            c.alph = session_alph(ver == Ver::V5, 1);
            c.alph.pub_q = vec![1, 2];
            c.alph.pub_ids = vec![256, 65535];
            c.alph.peer_ack_ids = vec![1, 256, 65535];
            c.alph.peer_pub_q = vec![2];
            c.alph.peer_ids = vec![256, 65535];
            c.alph.peer_dup = true;
            c.alph.peer_acks.push(AckKind::Pubrel);
            c.alph.defer_pubrel = true;
            c.alph.erase = true;
            c.groups = vec![group];
            v.push(c);
        }
    }
    v
}

pub fn c07(rep: &mut Report) {
    run_all(rep, c07_configs(rep.thorough()), 200_000, 10.0);
    for f in ["c07.first-delivery", "c07.duplicate-suppressed", "c07.pubrel-releases", "c07.local-error-pubrec", "c07.refused-by-validation", "session.resumed", "session.clean-start", "closed"] {
        rep.floor(f, 1);
    }
    rep.assume("manual-mode replies (PUBREC success|error, PUBCOMP) are issued in the same application step as the notification; export/restore of the handled set is decided in C16");
}

// ------------------------------------------------------------------------------------------
// C08

/// a clean start that keeps its new session (v5.0: Clean Start 1 + Session Expiry Interval), publishes handed over
/// before the CONNACK, and a CONNACK that limits the session to the connection after all (Session Expiry
/// Interval 0, session not present): the session that began with the CONNECT goes on until the close
pub fn clean_start_expiry_configs(prefix: &str, group: &'static str, thorough: bool) -> Vec<EpCfg> {
    let mut v = vec![];
    for role in [RoleK::Client, RoleK::Server] {
        if !thorough && role == RoleK::Server {
            continue;
        }
        let mut c = EpCfg::new(&cfg_name(prefix, role, Some(Ver::V5), "clean start with expiry, CONNACK expiry 0"), role, Some(Ver::V5));
        c.auto_pub = true;
        c.window = 2;
        c.alph = session_alph(true, 2);
        c.alph.pub_q = vec![1, 2];
        c.alph.pub_any_status = true;
        c.connects = vec![ConnProf { sei: Some(100), ..ConnProf::basic(true) }, ConnProf::basic(false)];
        c.connacks = vec![AckProf { sei: Some(0), ..AckProf::basic(false) }, AckProf::basic(false), AckProf::basic(true)];
        c.groups = vec![group];
        v.push(c);
    }
    v
}

/// manual responses whose first attempt carries a 40-byte Reason String under a peer Maximum Packet Size of 30:
/// the library refuses it (too large) and the application falls back to the plain reply. A refused reply must
/// leave the exchange, the identifiers and the handled set exactly as they were.
pub fn oversized_reply_configs(prefix: &str, group: &'static str, thorough: bool) -> Vec<EpCfg> {
    let mut v = vec![];
    for role in [RoleK::Client, RoleK::Server] {
        if !thorough && role == RoleK::Server {
            continue;
        }
        let ver = Ver::V5;
        let mut c = EpCfg::new(&cfg_name(prefix, role, Some(ver), "oversized-replies"), role, Some(ver));
        c.auto_pub = false;
        c.window = 2;
        c.alph = session_alph(true, 2);
        c.alph.pub_q = vec![1, 2];
        c.alph.peer_pub_q = vec![1, 2];
        c.alph.peer_ids = vec![1, 2];
        c.alph.peer_dup = true;
        c.alph.peer_acks = vec![AckKind::Puback, AckKind::Pubrec, AckKind::Pubcomp, AckKind::Pubrel];
        c.alph.peer_ack_ids = vec![1, 2];
        c.alph.reply_err = true;
        c.alph.reply_big = true;
        c.alph.defer_pubrel = true;
        c.connects = vec![ConnProf { mps: Some(30), ..ConnProf::basic(false) }, ConnProf::basic(false)];
        c.connacks = vec![AckProf { mps: Some(30), ..AckProf::basic(true) }, AckProf { mps: Some(30), ..AckProf::basic(false) }, AckProf::basic(true)];
        if group == "c12" {
            // own Receive Maximum 1 in both directions: a reply the library refused has not freed the slot
            c.connects = vec![ConnProf { mps: Some(30), rm: Some(1), ..ConnProf::basic(false) }];
            c.connacks = vec![AckProf { mps: Some(30), rm: Some(1), ..AckProf::basic(true) }, AckProf { mps: Some(30), rm: Some(1), ..AckProf::basic(false) }];
        }
        c.groups = vec![group];
        v.push(c);
    }
    v
}

pub fn c08_configs(thorough: bool) -> Vec<EpCfg> {
    let mut v = vec![];
    for role in ROLES {
        for ver in VERS {
            for auto in [true, false] {
                if !thorough && (role == RoleK::Any || !auto) && !(role == RoleK::Client && ver == Ver::V5) {
                    continue;
                }
                let mut c = EpCfg::new(&cfg_name("c08", role, Some(ver), &format!("auto={auto}")), role, Some(ver));
                c.auto_pub = auto;
                c.window = if thorough { 3 } else { 2 };
                c.alph = session_alph(ver == Ver::V5, 3);
                c.alph.pub_q = vec![1, 2];
                c.alph.sub = true;
                c.alph.unsub = true;
                c.alph.peer_sub = true;
                c.alph.send_fail = true;
                c.alph.defer_pubrel = true;
                c.alph.early_peer_traffic = true;
                c.alph.second_connack = true;
                c.alph.disconnect = true;
                c.alph.peer_disconnect = true;
                c.alph.disconnect_expiry0 = true;
                // erase_stored_publish() as the application's message-expiry hook: releases a stored PUBLISH,
                // must not touch an exchange that is past PUBREC
                c.alph.erase = true;
                // a refused connection attempt (failure CONNACK) must leave the identifiers of the session alone
                c.connacks.push(AckProf { ok: false, ..AckProf::basic(false) });
                // the option setters are ordinary calls: toggled at any time (in the configurations that
                // start with automatic responses)
                if auto && (thorough || role == RoleK::Client) {
                    c.alph.toggle_opts = vec![0, 1];
                }
                if ver == Ver::V5 {
                    // refusal reasons: too large, Receive Maximum exceeded, alias out of range
                    c.alph.als = vec![Al::No, Al::Reg(3), Al::Use(1)];
                    c.alph.use_unbound = true;
                    c.connacks = vec![AckProf::basic(false), AckProf::basic(true), AckProf { rm: Some(1), tam: Some(2), mps: Some(8), ..AckProf::basic(true) }, AckProf { tam: Some(2), ..AckProf::basic(true) }];
                    c.connects = vec![ConnProf::basic(true), ConnProf::basic(false), ConnProf { rm: Some(1), tam: Some(2), mps: Some(8), ..ConnProf::basic(false) }, ConnProf { tam: Some(2), ..ConnProf::basic(true) }];
                }
                c.groups = vec!["c08"];
                v.push(c);
            }
        }
    }
    v.extend(large_id_configs("c08", "c08", thorough));
    v.extend(oversized_reply_configs("c08", "c08", thorough));
    v.extend(clean_start_expiry_configs("c08", "c08", thorough));
    // identifiers the application holds (acquired / registered, not yet used) next to exchanges of a session that
    // the next CONNACK declares "not present": only the old exchanges go; an identifier that was erased or
    // acknowledged while the CONNACK was outstanding and has been acquired again is the application's
    for role in [RoleK::Client, RoleK::Server] {
        for ver in VERS {
            if !thorough && !(role == RoleK::Client && ver == Ver::V4) && !(role == RoleK::Server && ver == Ver::V5) {
                continue;
            }
            let mut c = EpCfg::new(&cfg_name("c08", role, Some(ver), "held ids across session-not-present"), role, Some(ver));
            c.auto_pub = true;
            c.window = 2;
            c.alph = session_alph(ver == Ver::V5, 2);
            c.alph.pub_q = vec![1, 2];
            c.alph.erase = true;
            c.alph.raw_ids = vec![1, 2];
            c.alph.early_peer_traffic = true;
            c.connects = vec![ConnProf::basic(false)];
            c.connacks = vec![AckProf::basic(false), AckProf::basic(true)];
            c.groups = vec!["c08"];
            v.push(c);
        }
    }
    // raw id-management calls for every id value incl. 0 and the type maximum
    for role in [RoleK::Client, RoleK::Server] {
        for ver in VERS {
            let mut c = EpCfg::new(&cfg_name("c08", role, Some(ver), "raw-ids"), role, Some(ver));
            c.auto_pub = true;
            c.window = 2;
            c.alph = Alph { pub_q: vec![1], topics: 1, als: vec![Al::No], raw_ids: vec![0, 1, 2, 3, 65535], peer_acks: vec![AckKind::Puback], peer_ack_ids: vec![1, 2], spontaneous_close: true, pub_any_status: true, ..Alph::default() };
            c.groups = vec!["c08"];
            v.push(c);
        }
    }
    v
}
pub fn c08(rep: &mut Report) {
    run_all(rep, c08_configs(rep.thorough()), 250_000, 8.0);
    // 32-bit identifiers: raw id calls incl. the type maximum, and one session configuration
    for ver in VERS {
        let mut c = EpCfg::new(&cfg_name("c08-u32", RoleK::Client, Some(ver), "raw-ids"), RoleK::Client, Some(ver));
        c.auto_pub = true;
        c.window = 2;
        c.alph = Alph { pub_q: vec![1, 2], topics: 1, als: vec![Al::No], sub: true, raw_ids: vec![0, 1, 2, 65536, u32::MAX], peer_acks: vec![AckKind::Puback, AckKind::Pubrec, AckKind::Pubcomp], peer_ack_ids: vec![1, 2], peer_sub: true, spontaneous_close: true, pub_any_status: true, ..Alph::default() };
        c.groups = vec!["c08"];
        run_cfg::<u32>(rep, c, Limits::new(200, 200_000, 20.0), false);
    }
    c08_extremes(rep);
    c08_adoption(rep);
    for f in ["c08.acquire", "c08.register-ok", "c08.register-refused", "c08.release-call", "c08.released", "c08.release-on-close", "pub.refused", "sub.refused", "sub.sent", "suback.matching", "suback.unexpected", "session.clean-start", "session.resumed", "c08.scripted-exhaustion"] {
        rep.floor(f, 1);
    }
    rep.assume("the application releases only identifiers it holds itself; an identifier acquired for a send is used for exactly that one send");
}

/// A server created with an undetermined version holds the identifiers of everything that was restored into
/// it; when the first CONNECT fixes the version, the entries of the other version go. Exhaustive over exports
/// of <= 3 entries over {PUBLISH QoS 1, PUBLISH QoS 2, PUBREL} x {v3.1.1, v5.0} on distinct ids x adopting
/// version x clean start: an identifier that was in use before the CONNECT and is free after it has been
/// announced in that step (unless the CONNECT starts a new session: wholesale reset), nothing else is
/// announced, and nothing twice.
fn c08_adoption(rep: &mut Report) {
    use crate::bridge;
    use crate::conn::{ConnBox, Ev};
    use crate::refcodec::{self as rc, AP};
    use crate::report::Violation;
    use mqtt_protocol_core::mqtt::packet::{GenericPacket, GenericStorePacket};
    let mk = |k: (u8, u32, Ver)| -> GenericStorePacket<u16> {
        let p: GenericPacket<u16> = if k.0 == 3 {
            bridge::build::<u16>(&AP::Ack { ver: k.2, kind: AckKind::Pubrel, pid: k.1, code: None, props: None }).ok().unwrap()
        } else {
            bridge::build::<u16>(&AP::Publish { ver: k.2, dup: true, qos: k.0, retain: false, topic: b"a".to_vec(), pid: Some(k.1), props: vec![], payload: b"p".to_vec() }).ok().unwrap()
        };
        match p {
            GenericPacket::V3_1_1Publish(x) => GenericStorePacket::V3_1_1Publish(x),
            GenericPacket::V5_0Publish(x) => GenericStorePacket::V5_0Publish(x),
            GenericPacket::V3_1_1Pubrel(x) => GenericStorePacket::V3_1_1Pubrel(x),
            GenericPacket::V5_0Pubrel(x) => GenericStorePacket::V5_0Pubrel(x),
            _ => unreachable!(),
        }
    };
    // entry i of an export uses identifier i + 1
    let shapes: Vec<(u8, Ver)> = vec![(1, Ver::V4), (1, Ver::V5), (2, Ver::V4), (2, Ver::V5), (3, Ver::V4), (3, Ver::V5)];
    let mut exports: Vec<Vec<(u8, u32, Ver)>> = vec![];
    for a in 0..shapes.len() {
        exports.push(vec![(shapes[a].0, 1, shapes[a].1)]);
        for b in 0..shapes.len() {
            exports.push(vec![(shapes[a].0, 1, shapes[a].1), (shapes[b].0, 2, shapes[b].1)]);
            for c in 0..shapes.len() {
                exports.push(vec![(shapes[a].0, 1, shapes[a].1), (shapes[b].0, 2, shapes[b].1), (shapes[c].0, 3, shapes[c].1)]);
            }
        }
    }
    let mut n = 0u64;
    let mut dropped = 0u64;
    for ver in VERS {
        for clean in [false, true] {
            for ex in &exports {
                n += 1;
                let ex2 = ex.clone();
                let r = crate::util::guarded(move || -> Result<u64, String> {
                    let mut u = ConnBox::<u16>::new(RoleK::Server, None);
                    u.restore_packets(ex2.iter().map(|k| mk(*k)).collect());
                    let used_before: Vec<u32> = (1..=4u32).filter(|id| u.clone().register(*id).is_err()).collect();
                    let (l, _) = u.recv_all(&rc::encode(&ConnProf::basic(clean).ap(ver), 2));
                    let evs: Vec<Ev> = l.into_iter().flatten().collect();
                    let used_after: Vec<u32> = (1..=4u32).filter(|id| u.clone().register(*id).is_err()).collect();
                    let announced: Vec<u32> = evs.iter().filter_map(|e| if let Ev::Released(x) = e { Some(*x) } else { None }).collect();
                    let mut d = 0;
                    for id in 1..=4u32 {
                        let (b, a) = (used_before.contains(&id), used_after.contains(&id));
                        let k = announced.iter().filter(|x| **x == id).count();
                        if k > 1 {
                            return Err(format!("identifier {id} announced {k} times in one step"));
                        }
                        if k == 1 && !(b && !a) {
                            return Err(format!("release of identifier {id} announced although it was {} before and is {} after the CONNECT", if b { "in use" } else { "free" }, if a { "in use" } else { "free" }));
                        }
                        if b && !a {
                            d += 1;
                            if k == 0 && !clean {
                                return Err(format!("identifier {id} was in use before the CONNECT (restored entry of the other protocol version), is free after it, and no release was announced; no new session starts in this step"));
                            }
                        }
                    }
                    Ok(d)
                });
                let hist = vec![serde_json::json!(format!("Server(Undetermined): restore_packets({ex:?}) (kind 1/2 = PUBLISH QoS, 3 = PUBREL; id; version); recv CONNECT {ver:?} clean={clean}"))];
                match r {
                    Err(m) => rep.violation(Violation { rule: "c08.adoption".into(), sig: format!("c08.adoption|panic|{}", crate::util::panic_sig(&m)), detail: format!("panic: {m}"), config: "c08 version adoption with a restored store".into(), history: hist }),
                    Ok(Err(t)) => rep.violation(Violation { rule: "c08.adoption".into(), sig: format!("c08.adoption|{}|v{}", if t.contains("no release was announced") { "unannounced" } else if t.contains("times") { "twice" } else { "spurious" }, ver.level()), detail: t, config: "c08 version adoption with a restored store".into(), history: hist }),
                    Ok(Ok(d)) => dropped += d,
                }
            }
        }
    }
    rep.count("c08.adoption-scripts", n);
    rep.count("c08.adoption-dropped-ids", dropped);
    rep.add_cov("traces_validated_against_impl", n);
    rep.floor("c08.adoption-dropped-ids", 100);
}

/// Scripted single-path extremes: exhaust all 65 535 ids, release one, re-acquire; u32 extremes.
fn c08_extremes(rep: &mut Report) {
    use crate::conn::ConnBox;
    let r = crate::util::guarded(|| {
        let mut c = ConnBox::<u16>::new(RoleK::Client, Some(Ver::V4));
        let mut seen = vec![false; 65536];
        for _ in 0..65535u32 {
            let id = c.acquire().expect("acquire must succeed while ids remain") as usize;
            assert!(id != 0 && !seen[id], "id {id} handed out twice or zero");
            seen[id] = true;
        }
        assert!(c.acquire().is_err(), "exhaustion must be reported as an error");
        assert!(c.register(7).is_err(), "an id in use cannot be registered");
        let ev = c.release(7);
        assert_eq!(ev.len(), 1, "release of an in-use id announces it once");
        assert!(c.release(7).is_empty(), "second release announces nothing");
        assert_eq!(c.acquire().ok(), Some(7));
        assert!(c.release(0).is_empty(), "release of id 0 announces nothing");
        let mut d = ConnBox::<u32>::new(RoleK::Server, Some(Ver::V5));
        assert!(d.register(1).is_ok() && d.register(u32::MAX).is_ok());
        assert!(d.register(u32::MAX).is_err() && d.register(0).is_err());
        assert_eq!(d.acquire().ok(), Some(2));
        assert_eq!(d.release(u32::MAX).len(), 1);
        assert!(d.release(u32::MAX).is_empty() && d.release(0).is_empty());
    });
    rep.count("c08.scripted-exhaustion", 1);
    if let Err(m) = r {
        rep.violation(crate::report::Violation {
            rule: "c08.scripted".into(),
            sig: format!("c08.scripted|{}", crate::util::panic_sig(&m)),
            detail: format!("scripted id-exhaustion path failed: {m}"),
            config: "c08 scripted extremes".into(),
            history: vec![serde_json::json!("acquire 65535 ids; acquire again; release 7 twice; re-acquire; release(0); u32 register 1 / MAX")],
        });
    }
}

// ------------------------------------------------------------------------------------------
// C12

pub fn c12_configs(thorough: bool) -> Vec<EpCfg> {
    let mut v = vec![];
    let ms: &[u16] = if thorough { &[1, 2, 3] } else { &[1, 2] };
    for role in [RoleK::Client, RoleK::Server] {
        for &mx in ms {
            for auto in [true, false] {
                for offline in [false, true] {
                    if !thorough && (!auto || (offline && mx != 1)) && !(auto && offline && mx == 1) {
                        if !(role == RoleK::Client && !auto && !offline && mx == 1) {
                            continue;
                        }
                    }
                    let mut c = EpCfg::new(&cfg_name("c12", role, Some(Ver::V5), &format!("M={mx} auto={auto} offline={offline}")), role, Some(Ver::V5));
                    c.auto_pub = auto;
                    c.offline = offline;
                    c.window = mx as usize + 1;
                    c.alph = session_alph(true, mx as u32 + 1);
                    c.alph.pub_q = vec![1, 2];
                    c.alph.erase = true;
                    c.alph.defer_pubrel = !auto;
                    c.alph.early_peer_traffic = true;
                    // refusals in between: an alias above the peer's Topic Alias Maximum (the limit test has
                    // passed by then), a packet larger than the peer accepts
                    c.alph.als = vec![Al::No, Al::Reg(3)];
                    c.alph.topics = 3;
                    // the peer's Receive Maximum arrives in CONNACK (client) / CONNECT (server)
                    c.connacks = vec![AckProf { rm: Some(mx), tam: Some(2), mps: Some(12), ..AckProf::basic(false) }, AckProf { rm: Some(mx), tam: Some(2), ..AckProf::basic(true) }, AckProf { rm: Some(1), ..AckProf::basic(true) }, AckProf { rm: Some(mx), mps: Some(12), ..AckProf::basic(true) }];
                    c.connects = vec![ConnProf { rm: Some(mx), tam: Some(2), mps: Some(12), ..ConnProf::basic(true) }, ConnProf { rm: Some(mx), tam: Some(2), ..ConnProf::basic(false) }, ConnProf { rm: Some(1), ..ConnProf::basic(false) }, ConnProf { rm: Some(mx), mps: Some(12), ..ConnProf::basic(false) }];
                    c.groups = vec!["c12"];
                    v.push(c);
                }
            }
        }
    }
    // inbound direction: own Receive Maximum 1 / 2, peer publishes ids 1..=3
    for role in [RoleK::Client, RoleK::Server] {
        for own in [1u16, 2] {
            for auto in [true, false] {
                if !thorough && !auto && own == 2 {
                    continue;
                }
                let mut c = EpCfg::new(&cfg_name("c12", role, Some(Ver::V5), &format!("inbound own={own} auto={auto}")), role, Some(Ver::V5));
                c.auto_pub = auto;
                c.window = 1;
                c.alph = Alph { peer_pub_q: vec![1, 2], peer_ids: vec![1, 2, 3], peer_dup: true, peer_acks: vec![AckKind::Pubrel], peer_ack_ids: vec![1, 2, 3], spontaneous_close: true, topics: 1, als: vec![Al::No], reply_err: true, early_peer_traffic: true, ..Alph::default() };
                c.connects = vec![ConnProf { rm: Some(own), ..ConnProf::basic(true) }, ConnProf { rm: Some(own), ..ConnProf::basic(false) }];
                c.connacks = vec![AckProf { rm: Some(own), ..AckProf::basic(false) }, AckProf { rm: Some(own), ..AckProf::basic(true) }];
                c.groups = vec!["c12"];
                v.push(c);
            }
        }
    }
    v.extend(oversized_reply_configs("c12", "c12", thorough));
    v
}
pub fn c12(rep: &mut Report) {
    run_all(rep, c12_configs(rep.thorough()), 200_000, 6.0);
    c12_max(rep);
    for f in ["c12.accepted-under-limit", "c12.refused-at-limit", "c12.vacancy-checked", "c12.vacancy-full", "c12.vacancy-zero", "c12.inbound-over-limit", "session.resumed", "c06.resume-retransmit", "c12.scripted-65535"] {
        rep.floor(f, 1);
    }
}

/// M = 65535: one scripted path per identifier width (65 535 accepted, next refused, vacancy 0, acks bring it
/// back). With 16-bit identifiers the 65 536th publish cannot even get an identifier; with 32-bit identifiers
/// it can be attempted and must be refused without wrapping the counter.
fn c12_max(rep: &mut Report) {
    c12_max_w::<u16>(rep);
    c12_max_w::<u32>(rep);
}
fn c12_max_w<P: crate::bridge::Pid>(rep: &mut Report) {
    use crate::bridge::build;
    use crate::conn::{ConnBox, Ev};
    use crate::refcodec::{self as rc, PVal, Prop, AP};
    use mqtt_protocol_core::mqtt::result_code::MqttError;
    let r = crate::util::guarded(|| {
        let mut c = ConnBox::<P>::new(RoleK::Client, Some(Ver::V5));
        c.set_auto_pub_response(true);
        let _ = c.send(build::<P>(&ConnProf::basic(true).ap(Ver::V5)).ok().unwrap());
        let connack = AP::Connack { ver: Ver::V5, sp: false, code: 0, props: vec![Prop { id: 0x21, val: PVal::U16(65535) }] };
        let _ = c.recv_all(&rc::encode(&connack, P::W));
        assert_eq!(c.vacancy(), Some(65535));
        let mut ids = vec![];
        for i in 0..65535u32 {
            let id = c.acquire().expect("id");
            ids.push(id);
            let p = AP::Publish { ver: Ver::V5, dup: false, qos: 1, retain: false, topic: b"a".to_vec(), pid: Some(id), props: vec![], payload: vec![] };
            let ev = c.send(build::<P>(&p).ok().unwrap());
            assert!(ev.iter().any(|e| matches!(e, Ev::Send { .. })), "publish {i} must be accepted");
            assert_eq!(c.vacancy(), Some((65534 - i) as u16), "vacancy after publish {i}");
        }
        assert_eq!(c.vacancy(), Some(0));
        if P::W == 2 {
            // all ids are in use now, so a 65 536th publish cannot even get an id: exhaustion is reported
            assert!(c.acquire().is_err());
        } else {
            // 32-bit identifiers: the 65 536th publish gets an identifier and must be refused at the limit
            let id = c.acquire().expect("a 32-bit identifier is available");
            let p = AP::Publish { ver: Ver::V5, dup: false, qos: 1, retain: false, topic: b"a".to_vec(), pid: Some(id), props: vec![], payload: vec![] };
            let ev = c.send(build::<P>(&p).ok().unwrap());
            assert!(ev.iter().any(|e| matches!(e, Ev::Error(MqttError::ReceiveMaximumExceeded))) && !ev.iter().any(|e| matches!(e, Ev::Send { .. })), "publish 65536 must be refused with ReceiveMaximumExceeded: {:?}", ev.iter().map(|e| e.short()).collect::<Vec<_>>());
            assert!(ev.iter().any(|e| matches!(e, Ev::Released(x) if *x == id)), "the refused publish must give its identifier back");
            assert_eq!(c.vacancy(), Some(0), "vacancy after the refused publish");
        }
        for (n, id) in ids.iter().enumerate() {
            let (l, _) = c.recv_all(&rc::encode(&AP::Ack { ver: Ver::V5, kind: AckKind::Puback, pid: *id, code: None, props: None }, P::W));
            assert!(l.iter().flatten().any(|e| matches!(e, Ev::Released(x) if x == id)), "PUBACK {id} must release");
            assert_eq!(c.vacancy(), Some((n + 1) as u16), "vacancy after PUBACK {id}");
        }
        assert_eq!(c.vacancy(), Some(65535));
    });
    rep.count("c12.scripted-65535", 1);
    if let Err(m) = r {
        rep.violation(crate::report::Violation {
            rule: "c12.scripted".into(),
            sig: format!("c12.scripted|{}|w{}", crate::util::panic_sig(&m), P::W),
            detail: format!("scripted Receive Maximum 65535 path ({}-bit identifiers) failed: {m}", P::W * 8),
            config: "c12 scripted M=65535".into(),
            history: vec![serde_json::json!(format!("{}-bit identifiers: CONNACK Receive Maximum 65535; 65535 x publish QoS1; vacancy 0; one more publish (refused); 65535 x PUBACK; vacancy 65535", P::W * 8))],
        });
    }
}

// ------------------------------------------------------------------------------------------
// C13

pub fn c13_configs(thorough: bool) -> Vec<EpCfg> {
    let mut v = vec![];
    for role in [RoleK::Client, RoleK::Server] {
        for tam in [0u16, 1, 2] {
            for mode in ["manual", "auto-map", "auto-replace"] {
                if !thorough && role == RoleK::Server && !(tam == 1 && mode == "auto-map") && !(tam == 2 && mode == "manual") {
                    continue;
                }
                let mut c = EpCfg::new(&cfg_name("c13", role, Some(Ver::V5), &format!("tam={tam} {mode}")), role, Some(Ver::V5));
                c.auto_pub = true;
                c.auto_map = mode == "auto-map";
                c.auto_replace = mode == "auto-replace";
                c.window = 2;
                c.alph = Alph {
                    pub_q: vec![0, 1],
                    topics: if thorough { 3 } else { 2 },
                    als: vec![Al::No, Al::Reg(1), Al::Reg(2), Al::Reg(3), Al::Use(1), Al::Use(2)],
                    peer_acks: vec![AckKind::Puback],
                    peer_ack_ids: vec![1, 2],
                    spontaneous_close: true,
                    regulate: true,
                    // registrations attempted while the CONNACK is still outstanding (stored, not transmitted)
                    // (with automatic mapping as well: a packet that is only stored binds nothing)
                    pub_any_status: true,
                    ..Alph::default()
                };
                let t = if tam == 0 { None } else { Some(tam) };
                // Receive Maximum 1 so that refusals interleave with alias registration
                c.connacks = vec![AckProf { tam: t, rm: Some(1), ..AckProf::basic(false) }, AckProf { tam: t, rm: Some(1), ..AckProf::basic(true) }, AckProf { tam: t, ..AckProf::basic(false) }];
                c.connects = vec![ConnProf { tam: t, rm: Some(1), ..ConnProf::basic(true) }, ConnProf { tam: t, rm: Some(1), ..ConnProf::basic(false) }, ConnProf { tam: t, ..ConnProf::basic(true) }];
                c.groups = vec!["c13"];
                v.push(c);
            }
        }
    }
    // automatic mapping next to a tight peer Maximum Packet Size: a rewritten packet may not fit, the
    // table must then stay as the receiver knows it (PUBLISH q0 'a'/'p' = 7 bytes, 'bb' = 8, +alias = +3)
    for role in [RoleK::Client, RoleK::Server] {
        for tam in [1u16, 2] {
            for mode in ["auto-map", "auto-replace"] {
                for mps in [7u32, 8, 9, 10, 11, 12] {
                    if !thorough && (role == RoleK::Server || tam == 2 || mode == "auto-replace") && !(role == RoleK::Server && tam == 1 && mode == "auto-map" && mps == 9) {
                        continue;
                    }
                    let mut c = EpCfg::new(&cfg_name("c13", role, Some(Ver::V5), &format!("tam={tam} {mode} peer-mps={mps}")), role, Some(Ver::V5));
                    c.auto_pub = true;
                    c.auto_map = mode == "auto-map";
                    c.auto_replace = mode == "auto-replace";
                    c.window = 2;
                    c.alph = Alph { pub_q: vec![0, 1], topics: 3, als: vec![Al::No, Al::Reg(1), Al::Reg(2)], peer_acks: vec![AckKind::Puback], peer_ack_ids: vec![1, 2], spontaneous_close: true, regulate: true, ..Alph::default() };
                    // the peer's limits arrive in CONNACK (client) / CONNECT (server); the own packets carry none
                    if role == RoleK::Client {
                        c.connacks = vec![AckProf { tam: Some(tam), mps: Some(mps), ..AckProf::basic(false) }];
                        c.connects = vec![ConnProf::basic(true)];
                    } else {
                        c.connects = vec![ConnProf { tam: Some(tam), mps: Some(mps), ..ConnProf::basic(true) }];
                        c.connacks = vec![AckProf::basic(false)];
                    }
                    c.groups = vec!["c13"];
                    v.push(c);
                }
            }
        }
    }
    // property blocks of 125..127 bytes: the alias property that auto-map adds, and the one the store copy of a
    // manually aliased PUBLISH drops, move the Property Length across its one-byte / two-byte boundary - the
    // frame must still be one a receiver reads back (rule pub.frame-checked)
    for pad in [119usize, 120, 121] {
        if !thorough && pad != 120 {
            continue;
        }
        for mode in ["manual", "auto-map", "auto-replace"] {
            if !thorough && mode == "auto-replace" {
                continue;
            }
            let mut c = EpCfg::new(&cfg_name("c13", RoleK::Client, Some(Ver::V5), &format!("padded properties pad={pad} {mode}")), RoleK::Client, Some(Ver::V5));
            c.auto_pub = true;
            c.auto_map = mode == "auto-map";
            c.auto_replace = mode == "auto-replace";
            c.window = 2;
            c.pub_pad = pad;
            c.alph = Alph { pub_q: vec![0, 1], topics: 2, als: if mode == "auto-map" { vec![Al::No] } else { vec![Al::No, Al::Reg(1), Al::Use(1)] }, peer_acks: vec![AckKind::Puback], peer_ack_ids: vec![1, 2], spontaneous_close: true, ..Alph::default() };
            c.connects = vec![ConnProf { tam: Some(1), ..ConnProf::basic(false) }];
            c.connacks = vec![AckProf { tam: Some(1), ..AckProf::basic(true) }, AckProf { tam: Some(1), ..AckProf::basic(false) }];
            c.groups = vec!["c13"];
            v.push(c);
        }
    }
    // receive side
    for role in [RoleK::Client, RoleK::Server] {
        for tam in [0u16, 2] {
            let mut c = EpCfg::new(&cfg_name("c13", role, Some(Ver::V5), &format!("receive own-tam={tam}")), role, Some(Ver::V5));
            c.auto_pub = true;
            c.window = 1;
            c.alph = Alph { peer_pub_q: vec![0, 1, 2], peer_dup: true, peer_acks: vec![AckKind::Pubrel], peer_ack_ids: vec![1], peer_ids: vec![1], topics: 2, als: vec![Al::No], peer_als: vec![Al::No, Al::Reg(1), Al::Reg(2), Al::Reg(3), Al::Use(1), Al::Use(2), Al::Use(3)], spontaneous_close: true, ..Alph::default() };
            let t = if tam == 0 { None } else { Some(tam) };
            c.connects = vec![ConnProf { tam: t, ..ConnProf::basic(true) }, ConnProf { tam: t, ..ConnProf::basic(false) }];
            c.connacks = vec![AckProf { tam: t, ..AckProf::basic(false) }, AckProf { tam: t, ..AckProf::basic(true) }];
            c.groups = vec!["c13"];
            v.push(c);
        }
    }
    v
}
pub fn c13(rep: &mut Report) {
    run_all(rep, c13_configs(rep.thorough()), 200_000, 5.0);
    for f in ["c13.bind", "c13.rebind", "c13.sent-by-alias", "c13.regulate-ok", "c13.regulate-refused", "c13.recv-invalid-alias", "c13.recv-aliased-delivered", "pub.refused", "closed", "session.resumed"] {
        rep.floor(f, 1);
    }
    rep.assume("an empty-topic PUBLISH with alias a is only issued by the application if an earlier PUBLISH on the same connection that registered a was accepted by send() without an error, and never in auto-map mode (there the library owns the bindings and may evict them)");
}

// ------------------------------------------------------------------------------------------
// C14

pub fn c14_configs(thorough: bool) -> Vec<EpCfg> {
    let mut v = vec![];
    // sizes (u16 ids): PINGRESP 2, DISCONNECT+code 3, PUBACK/PUBREC/PUBREL/PUBCOMP 4, PUBLISH q0 "a"/"p" 7,
    // q1 9, +alias 3; "bb" topics one more; SUBSCRIBE 9; stored retransmissions as the original
    let limits: Vec<u32> = if thorough { vec![2, 3, 4, 5, 6, 7, 8, 9, 10, 11, 12, 13, 14] } else { vec![3, 4, 7, 9, 10, 12] };
    for role in [RoleK::Client, RoleK::Server] {
        for &l in &limits {
            for mode in ["manual", "auto-map", "auto-replace"] {
                if !thorough && (role == RoleK::Server && mode != "auto-map") {
                    continue;
                }
                let mut c = EpCfg::new(&cfg_name("c14", role, Some(Ver::V5), &format!("peer-limit={l} {mode}")), role, Some(Ver::V5));
                c.auto_pub = true;
                c.auto_ping = true;
                c.auto_map = mode == "auto-map";
                c.auto_replace = mode == "auto-replace";
                c.window = 1;
                c.alph = Alph {
                    pub_q: vec![0, 1, 2],
                    topics: 3,
                    als: vec![Al::No, Al::Reg(1), Al::Use(1)],
                    sub: true,
                    ping: true,
                    disconnect: true,
                    peer_pub_q: vec![1, 2],
                    peer_ids: vec![1],
                    peer_acks: vec![AckKind::Puback, AckKind::Pubrec, AckKind::Pubcomp, AckKind::Pubrel],
                    peer_ack_ids: vec![1],
                    peer_ping: true,
                    spontaneous_close: true,
                    pub_any_status: true,
                    // extended authentication: an 8-byte AUTH, also while the CONNACK is outstanding (a server
                    // knows the client's limit from the CONNECT on)
                    auth: true,
                    ..Alph::default()
                };
                c.auth_method = true;
                c.offline = true;
                // the peer's limit arrives in CONNACK (client) / CONNECT (server); a second profile without
                // limit lets packets be stored first and meet the limit only on resume
                if role == RoleK::Client {
                    c.connacks = vec![AckProf { mps: Some(l), tam: Some(1), ..AckProf::basic(true) }, AckProf { mps: Some(l), tam: Some(1), ..AckProf::basic(false) }, AckProf { tam: Some(1), ..AckProf::basic(true) }];
                    c.connects = vec![ConnProf::basic(false), ConnProf::basic(true)];
                } else {
                    c.connects = vec![ConnProf { mps: Some(l), tam: Some(1), ..ConnProf::basic(false) }, ConnProf { mps: Some(l), tam: Some(1), ..ConnProf::basic(true) }, ConnProf { tam: Some(1), ..ConnProf::basic(false) }];
                    c.connacks = vec![AckProf::basic(true), AckProf::basic(false)];
                }
                c.groups = vec!["c14"];
                v.push(c);
            }
        }
    }
    // several stored packets meet a smaller limit on resume: every oversize one is dropped (neighbours in the
    // store included), every other one retransmitted - window 3, topics of 1 / 2 / 10 bytes, limits between them
    for role in [RoleK::Client, RoleK::Server] {
        for l in [9u32, 10, 12] {
            if !thorough && !(role == RoleK::Client && l == 10) && !(role == RoleK::Server && l == 9) {
                continue;
            }
            let mut c = EpCfg::new(&cfg_name("c14", role, Some(Ver::V5), &format!("resume-limit={l} window=3")), role, Some(Ver::V5));
            c.auto_pub = true;
            c.window = 3;
            c.alph = Alph { pub_q: vec![1], topics: 3, als: vec![Al::No], peer_acks: vec![AckKind::Puback], peer_ack_ids: vec![1, 2, 3], spontaneous_close: true, ..Alph::default() };
            if role == RoleK::Client {
                c.connacks = vec![AckProf::basic(true), AckProf { mps: Some(l), ..AckProf::basic(true) }];
                c.connects = vec![ConnProf::basic(false)];
            } else {
                c.connects = vec![ConnProf::basic(false), ConnProf { mps: Some(l), ..ConnProf::basic(false) }];
                c.connacks = vec![AckProf::basic(true)];
            }
            c.groups = vec!["c14"];
            v.push(c);
        }
    }
    // both directions around the 127 / 128 Remaining Length boundary: the long topics give PUBLISH frames of
    // 129 (QoS 0, body 127, one length byte) and 131 bytes (body 128, two length bytes); QoS 1 adds 2, an alias 3
    for role in [RoleK::Client, RoleK::Server] {
        for lim in [129u32, 130, 131, 132, 133] {
            if !thorough && (role == RoleK::Server || !(lim == 130 || lim == 131 || lim == 132)) {
                continue;
            }
            for mode in ["manual", "auto-map"] {
                if !thorough && mode == "manual" && lim == 132 {
                    continue;
                }
                // (132 = the 129-byte frame plus the 3-byte alias property, one short of what the rewritten frame
                // needs once its Remaining Length takes a second byte)
                if !thorough && mode == "auto-map" && lim != 131 && lim != 132 {
                    continue;
                }
                let mut c = EpCfg::new(&cfg_name("c14", role, Some(Ver::V5), &format!("rl-boundary limit={lim} {mode}")), role, Some(Ver::V5));
                c.auto_pub = true;
                c.auto_map = mode == "auto-map";
                c.window = 1;
                c.alph = Alph {
                    pub_q: vec![0, 1],
                    topics: 2,
                    topic_base: 3,
                    als: if mode == "manual" { vec![Al::No, Al::Reg(1)] } else { vec![Al::No] },
                    peer_pub_q: vec![0, 1],
                    peer_ids: vec![1],
                    peer_acks: vec![AckKind::Puback],
                    peer_ack_ids: vec![1],
                    spontaneous_close: true,
                    ..Alph::default()
                };
                // the same limit in both directions, Topic Alias Maximum 1 both ways; persistent session so that
                // stored copies (full topic) meet the limit on resume
                c.connects = vec![ConnProf { mps: Some(lim), tam: Some(1), ..ConnProf::basic(false) }];
                c.connacks = vec![AckProf { mps: Some(lim), tam: Some(1), ..AckProf::basic(true) }];
                c.groups = vec!["c14"];
                v.push(c);
            }
        }
    }
    // the 127 / 128 *Property Length* boundary: a User Property pads the property block of every publish to
    // 125..127 bytes, the 3-byte alias property that auto-map adds (or the store copy drops) moves it across;
    // limits of the given frame + 3 and + 4 (the rewritten frame needs + 4 when the length field grows)
    for pad in [119usize, 120, 121] {
        if !thorough && pad != 120 {
            continue;
        }
        // PUBLISH QoS 0, topic 'a', payload 'p', property block = the padded User Property (pad + 6 bytes)
        let body = 2 + 1 + 1 + (pad + 6) + 1;
        let given = 1 + if body < 128 { 1 } else { 2 } + body;
        for extra in [3u32, 4] {
            for mode in ["auto-map", "manual"] {
                if mode == "manual" && extra == 3 && !thorough {
                    continue;
                }
                let lim = given as u32 + extra + if mode == "manual" { 2 } else { 0 };
                let mut c = EpCfg::new(&cfg_name("c14", RoleK::Client, Some(Ver::V5), &format!("prop-length-boundary pad={pad} limit={lim} {mode}")), RoleK::Client, Some(Ver::V5));
                c.auto_pub = true;
                c.auto_map = mode == "auto-map";
                c.window = 1;
                c.pub_pad = pad;
                c.alph = Alph {
                    pub_q: vec![0, 1],
                    topics: 1,
                    als: if mode == "manual" { vec![Al::No, Al::Reg(1), Al::Use(1)] } else { vec![Al::No] },
                    peer_acks: vec![AckKind::Puback],
                    peer_ack_ids: vec![1],
                    spontaneous_close: true,
                    ..Alph::default()
                };
                c.connects = vec![ConnProf { tam: Some(1), ..ConnProf::basic(false) }];
                c.connacks = vec![AckProf { mps: Some(lim), tam: Some(1), ..AckProf::basic(true) }];
                c.groups = vec!["c14"];
                v.push(c);
            }
        }
    }
    // a limit the sender learns late: a client's publishes handed over between its CONNECT (clean start that keeps
    // the new session, or a resumed session) and the CONNACK are stored unchecked - the CONNACK then announces a
    // Maximum Packet Size some of them exceed: dropped (identifier released), never transmitted
    for role in [RoleK::Client, RoleK::Any] {
        if !thorough && role == RoleK::Any {
            continue;
        }
        let mut c = EpCfg::new(&cfg_name("c14", role, Some(Ver::V5), "limit learned at CONNACK, early publishes"), role, Some(Ver::V5));
        c.auto_pub = true;
        c.window = 2;
        c.alph = Alph { pub_q: vec![1, 2], topics: 3, als: vec![Al::No], pub_any_status: true, peer_acks: vec![AckKind::Puback, AckKind::Pubrec, AckKind::Pubcomp], peer_ack_ids: vec![1, 2], spontaneous_close: true, ..Alph::default() };
        c.connects = vec![ConnProf { sei: Some(100), ..ConnProf::basic(true) }, ConnProf::basic(false)];
        // (one CONNACK carries the limit behind a Server Keep Alive, with an application override of the PINGREQ
        // interval in force: every property of the block is honoured, whatever stands in front of it)
        c.alph.set_interval = vec![None, Some(3)];
        c.connacks = vec![AckProf { mps: Some(12), ..AckProf::basic(false) }, AckProf { mps: Some(12), ..AckProf::basic(true) }, AckProf { mps: Some(12), ska: Some(2), rev: true, ..AckProf::basic(true) }, AckProf::basic(true)];
        c.groups = vec!["c14"];
        v.push(c);
    }
    // inbound: own limit around inbound frame sizes
    for role in [RoleK::Client, RoleK::Server] {
        for own in [3u32, 4, 6, 7, 8, 9] {
            if !thorough && !(own == 4 || own == 7 || own == 8) {
                continue;
            }
            let mut c = EpCfg::new(&cfg_name("c14", role, Some(Ver::V5), &format!("own-limit={own}")), role, Some(Ver::V5));
            c.auto_pub = true;
            c.window = 1;
            c.alph = Alph {
                pub_q: vec![1],
                topics: 2,
                als: vec![Al::No],
                peer_pub_q: vec![0, 1],
                peer_ids: vec![1],
                peer_acks: vec![AckKind::Puback, AckKind::Pubrel],
                peer_ack_ids: vec![1],
                peer_ping: true,
                peer_sub: true,
                spontaneous_close: true,
                ..Alph::default()
            };
            // the own limit is announced in CONNECT (client) / CONNACK (server)
            if role == RoleK::Client {
                c.connects = vec![ConnProf { mps: Some(own), ..ConnProf::basic(true) }];
                // the CONNACK itself may exceed the limit the client announced (a v5 CONNACK without padding
                // has 5 bytes; the padded one 5 + 7 + 4)
                c.connacks = vec![AckProf::basic(false), AckProf { pad: Some(4), ..AckProf::basic(false) }];
                c.alph.peer_auth = true;
            } else {
                c.connects = vec![ConnProf::basic(true)];
                c.connacks = vec![AckProf { mps: Some(own), ..AckProf::basic(false) }];
            }
            // frames whose wire size exceeds the limit only because the Remaining Length is padded
            // (non-minimal encodings of 2..4 bytes), around the limit
            let mut st: Vec<(String, Vec<u8>)> = vec![];
            let ping: u8 = if role == RoleK::Client { 0xD0 } else { 0xC0 };
            for pad in 1..=3usize {
                let mut f = vec![ping];
                f.extend(std::iter::repeat(0x80).take(pad));
                f.push(0x00);
                st.push((format!("PING non-minimal rl {} bytes", pad + 1), f));
            }
            for payload in 0..=3usize {
                let body_len = 2 + 1 + 1 + payload; // topic "a", empty properties, payload
                for pad in 0..=2usize {
                    let mut f = vec![0x30u8];
                    if pad == 0 {
                        f.push(body_len as u8);
                    } else {
                        f.push(body_len as u8 | 0x80);
                        f.extend(std::iter::repeat(0x80).take(pad - 1));
                        f.push(0x00);
                    }
                    f.extend_from_slice(&[0, 1, b'a', 0]);
                    f.extend(std::iter::repeat(b'p').take(payload));
                    st.push((format!("PUBLISH q0 payload {payload} rl {} bytes", pad + 1), f));
                }
            }
            // oversize frames of a type this role never receives (minimal Remaining Length, well-formed): the size
            // comes first - DISCONNECT 'Packet too large', not only a protocol error
            if role == RoleK::Client {
                // SUBSCRIBE id 1, no properties, filter "aaaa", options 0: 12 bytes; PINGREQ padded to 5 bytes
                st.push(("SUBSCRIBE (12 bytes) to a client".to_string(), vec![0x82, 10, 0, 1, 0, 0, 4, b'a', b'a', b'a', b'a', 0]));
                st.push(("UNSUBSCRIBE (11 bytes) to a client".to_string(), vec![0xA2, 9, 0, 1, 0, 0, 4, b'a', b'a', b'a', b'a']));
            } else {
                // SUBACK id 1, no properties, eight codes: 13 bytes; UNSUBACK likewise
                st.push(("SUBACK (13 bytes) to a server".to_string(), vec![0x90, 11, 0, 1, 0, 0, 0, 0, 0, 0, 0, 0, 0]));
                st.push(("UNSUBACK (13 bytes) to a server".to_string(), vec![0xB0, 11, 0, 1, 0, 0, 0, 0, 0, 0, 0, 0, 0]));
            }
            c.stimuli = std::sync::Arc::new(st);
            c.groups = vec!["c14"];
            v.push(c);
        }
    }
    v
}
pub fn c14(rep: &mut Report) {
    run_all(rep, c14_configs(rep.thorough()), 120_000, 3.0);
    for f in ["c14.send-under-limit-checked", "c14.send-at-limit", "c14.inbound-oversize", "c06.oversize-drop", "pub.refused", "c13.sent-by-alias"] {
        rep.floor(f, 1);
    }
}

// ------------------------------------------------------------------------------------------
// C15

pub fn c15_configs(thorough: bool) -> Vec<EpCfg> {
    let mut v = vec![];
    for role in ROLES {
        for ver in VERS {
            for ka in [0u16, 1, 65535] {
                for to in [0u64, 5] {
                    if !thorough && role == RoleK::Any && (ka == 0 || to == 0) {
                        continue;
                    }
                    // the largest keep alive (98 302 500 ms receive timeout): one configuration per role / version
                    if ka == 65535 && (to != 0 || role == RoleK::Any) {
                        continue;
                    }
                    let mut c = EpCfg::new(&cfg_name("c15", role, Some(ver), &format!("ka={ka} pingresp-timeout={to}")), role, Some(ver));
                    c.auto_pub = true;
                    c.auto_ping = true;
                    c.pingresp_to = to;
                    c.window = 1;
                    c.max_timer_fires = 3;
                    c.alph = Alph {
                        pub_q: vec![0, 2],
                        topics: 1,
                        als: vec![Al::No],
                        ping: true,
                        disconnect: true,
                        // (QoS 2 with retransmissions of an already handled identifier: answered without
                        // notification, but an accepted packet all the same)
                        peer_pub_q: vec![0, 1, 2],
                        peer_dup: true,
                        peer_ids: vec![1],
                        peer_acks: vec![AckKind::Pubrec, AckKind::Pubcomp, AckKind::Pubrel],
                        peer_ack_ids: vec![1],
                        peer_ping: true,
                        peer_disconnect: true,
                        timers: true,
                        spontaneous_close: true,
                        pub_any_status: true,
                        set_interval: vec![None, Some(0), Some(3)],
                        // the response timeout may be changed (also switched off) while a PINGRESP is awaited
                        set_pingresp_to: if to == 0 { vec![] } else { vec![0, to] },
                        ..Alph::default()
                    };
                    // second connection with a *different* keep alive; Server Keep Alive absent / 0 / 2
                    c.connects = vec![ConnProf { ka, ..ConnProf::basic(true) }, ConnProf { ka, ..ConnProf::basic(false) }, ConnProf { ka: if ka == 0 { 2 } else { 0 }, ..ConnProf::basic(false) }];
                    c.connacks = if ver == Ver::V5 {
                        // (Server Keep Alive 66 / 65535: the first values whose milliseconds do not fit 16 bits, and the largest)
                        vec![AckProf::basic(false), AckProf::basic(true), AckProf { ska: Some(0), ..AckProf::basic(true) }, AckProf { ska: Some(2), ..AckProf::basic(true) }, AckProf { ska: Some(if ka == 65535 { 65535 } else { 66 }), ..AckProf::basic(false) }, AckProf { ok: false, ..AckProf::basic(false) }]
                    } else {
                        vec![AckProf::basic(false), AckProf::basic(true), AckProf { ok: false, ..AckProf::basic(false) }]
                    };
                    c.groups = vec!["c15"];
                    v.push(c);
                }
            }
        }
    }
    // manual responses: the deferred PUBREL queued while disconnected
    for role in [RoleK::Client, RoleK::Server] {
        for ver in VERS {
            let mut c = EpCfg::new(&cfg_name("c15", role, Some(ver), "manual deferred-pubrel ka=1"), role, Some(ver));
            c.window = 1;
            c.alph = Alph { pub_q: vec![2], topics: 1, als: vec![Al::No], peer_acks: vec![AckKind::Pubrec, AckKind::Pubcomp], peer_ack_ids: vec![1], timers: true, spontaneous_close: true, pub_any_status: true, defer_pubrel: true, ..Alph::default() };
            c.connects = vec![ConnProf { ka: 1, ..ConnProf::basic(false) }];
            c.connacks = vec![AckProf::basic(true)];
            c.groups = vec!["c15"];
            v.push(c);
        }
    }
    v
}
pub fn c15(rep: &mut Report) {
    run_all(rep, c15_configs(rep.thorough()), 150_000, 4.0);
    for f in ["c15.cancel", "c15.quiesce-point", "c15.client-send-rearm", "c15.client-send-interval-0", "c15.server-recv-rearm", "c15.server-keepalive-0", "c15.pingresp-timer-armed", "c15.pingresp-cancels", "c15.expiry-pingreq-send", "c15.expiry-timeout", "pubrel.queued-offline"] {
        rep.floor(f, 1);
    }
    rep.assume("set_pingreq_send_interval is only called on a connection that acts (or will act) as a client; notify_timer_fired only for a timer the event stream says is armed");
}

// ------------------------------------------------------------------------------------------
// C19 (own run; the close-order rule also rides on every other endpoint exploration)

pub fn c19_configs(thorough: bool) -> Vec<EpCfg> {
    let mut v = vec![];
    for role in ROLES {
        for ver in VERS {
            for auto in [true, false] {
                if !thorough && role == RoleK::Any && !auto {
                    continue;
                }
                let mut c = EpCfg::new(&cfg_name("c19", role, Some(ver), &format!("auto={auto}")), role, Some(ver));
                c.auto_pub = auto;
                c.auto_ping = auto;
                c.pingresp_to = 5;
                c.window = 1;
                c.max_timer_fires = 2;
                c.alph = Alph {
                    pub_q: vec![1],
                    topics: 1,
                    als: if ver == Ver::V5 { vec![Al::No, Al::Reg(3)] } else { vec![Al::No] },
                    sub: true,
                    ping: true,
                    disconnect: true,
                    auth: true,
                    peer_pub_q: vec![1, 2],
                    peer_ids: vec![1, 2],
                    peer_als: if ver == Ver::V5 { vec![Al::No, Al::Use(1)] } else { vec![] },
                    peer_acks: vec![AckKind::Puback, AckKind::Pubrec, AckKind::Pubrel, AckKind::Pubcomp],
                    peer_ack_ids: vec![1, 2],
                    peer_ack_err: true,
                    peer_sub: true,
                    peer_ping: true,
                    peer_disconnect: true,
                    peer_auth: true,
                    second_connack: true,
                    second_connect: true,
                    timers: true,
                    spontaneous_close: true,
                    // the PINGREQ interval changed (also switched off) while a PINGRESP may be outstanding
                    set_interval: vec![None, Some(0), Some(3)],
                    ..Alph::default()
                };
                c.connects = vec![ConnProf { ka: 1, ..ConnProf::basic(true) }, ConnProf { ka: 1, rm: Some(1), ..ConnProf::basic(false) }, ConnProf { mps: Some(8), ..ConnProf::basic(true) }];
                c.connacks = vec![AckProf::basic(false), AckProf { rm: Some(1), ..AckProf::basic(true) }, AckProf { ok: false, ..AckProf::basic(false) }, AckProf { mps: Some(2), ..AckProf::basic(false) }, AckProf { mps: Some(8), ..AckProf::basic(false) }];
                // several frames in one read buffer: a frame that makes the connection request the close,
                // followed by frames that would make it transmit (the close-order rule is per returned list)
                {
                    let w = 2usize;
                    let bad: Vec<(&str, Vec<u8>)> = vec![
                        ("unexpected PUBACK", rc::encode(&AP::Ack { ver, kind: AckKind::Puback, pid: 9, code: None, props: None }, w)),
                        ("unexpected PUBCOMP", rc::encode(&AP::Ack { ver, kind: AckKind::Pubcomp, pid: 9, code: None, props: None }, w)),
                        ("second CONNECT/CONNACK", if role == RoleK::Server { rc::encode(&ConnProf::basic(true).ap(ver), w) } else { rc::encode(&AckProf::basic(false).ap(ver), w) }),
                        ("malformed PUBLISH", vec![0x32, 0x02, 0x00, 0x05]),
                    ];
                    let next: Vec<(&str, Vec<u8>)> = vec![
                        ("PINGREQ", rc::encode(&AP::Pingreq { ver }, w)),
                        ("PUBLISH q1", rc::encode(&AP::Publish { ver, dup: false, qos: 1, retain: false, topic: b"a".to_vec(), pid: Some(1), props: vec![], payload: b"p".to_vec() }, w)),
                        ("PUBLISH q2", rc::encode(&AP::Publish { ver, dup: false, qos: 2, retain: false, topic: b"a".to_vec(), pid: Some(1), props: vec![], payload: b"p".to_vec() }, w)),
                        ("PUBREL", rc::encode(&AP::Ack { ver, kind: AckKind::Pubrel, pid: 1, code: None, props: None }, w)),
                        ("PUBREC", rc::encode(&AP::Ack { ver, kind: AckKind::Pubrec, pid: 1, code: None, props: None }, w)),
                    ];
                    let mut st = vec![];
                    for (bn, b) in &bad {
                        for (nn, n) in &next {
                            let mut f = b.clone();
                            f.extend_from_slice(n);
                            st.push((format!("{bn} + {nn} in one buffer"), f));
                        }
                    }
                    // frames whose body is well formed and automatically answered, with fixed-header flags that
                    // MQTT reserves (the library does not validate them today; if it ever reports them, it must
                    // not go on to answer behind the close request)
                    for (nn, n) in &next {
                        for fl in [0x01u8, 0x0f] {
                            let mut f = n.clone();
                            if f[0] >> 4 != 3 {
                                f[0] = (f[0] & 0xf0) | ((f[0] & 0x0f) ^ fl);
                                st.push((format!("{nn} with reserved flags ^{fl:#x}"), f));
                            }
                        }
                    }
                    c.stimuli = std::sync::Arc::new(st);
                }
                c.groups = vec!["c19"];
                v.push(c);
            }
        }
    }
    // a clean start that keeps the new session (v5.0: Clean Start 1 with a Session Expiry Interval), publishes handed
    // over before the CONNACK (stored), and a server that answers "session present" all the same: whatever the
    // connection makes of such a CONNACK, nothing may be requested for sending behind a close request
    for role in [RoleK::Client, RoleK::Any] {
        if !thorough && role == RoleK::Any {
            continue;
        }
        let mut c = EpCfg::new(&cfg_name("c19", role, Some(Ver::V5), "clean start with expiry, early publishes"), role, Some(Ver::V5));
        c.auto_pub = true;
        c.window = 2;
        c.alph = Alph { pub_q: vec![1, 2], topics: 1, als: vec![Al::No], pub_any_status: true, disconnect: true, peer_acks: vec![AckKind::Puback, AckKind::Pubrec, AckKind::Pubcomp], peer_ack_ids: vec![1, 2], peer_disconnect: true, spontaneous_close: true, ..Alph::default() };
        c.connects = vec![ConnProf { sei: Some(100), ..ConnProf::basic(true) }, ConnProf::basic(false)];
        c.connacks = vec![AckProf::basic(true), AckProf::basic(false), AckProf { ok: false, ..AckProf::basic(false) }];
        c.groups = vec!["c19"];
        v.push(c);
    }
    // a server whose application publishes while it still owes the CONNACK (stored), and then refuses the
    // connection: the refusing CONNACK is the last thing requested for sending
    for ver in VERS {
        let mut c = EpCfg::new(&cfg_name("c19", RoleK::Server, Some(ver), "publishes while the CONNACK is owed, refusal"), RoleK::Server, Some(ver));
        c.auto_pub = true;
        c.window = 2;
        c.alph = Alph { pub_q: vec![1, 2], topics: 1, als: vec![Al::No], pub_any_status: true, peer_acks: vec![AckKind::Puback, AckKind::Pubrec, AckKind::Pubcomp], peer_ack_ids: vec![1, 2], spontaneous_close: true, ..Alph::default() };
        c.connects = vec![ConnProf::basic(false), ConnProf::basic(true)];
        c.connacks = vec![AckProf { ok: false, ..AckProf::basic(false) }, AckProf::basic(true), AckProf::basic(false)];
        c.groups = vec!["c19"];
        v.push(c);
    }
    v
}
pub fn c19(rep: &mut Report) {
    run_all(rep, c19_configs(rep.thorough()), 150_000, 5.0);
    for f in ["c19.close-requested", "c19.disconnect-sent", "c19.refusing-connack-sent", "c19.keepalive-timeout", "ack.unexpected", "c12.inbound-over-limit", "c13.recv-invalid-alias", "c17.connack-on-established", "c17.connect-on-established"] {
        rep.floor(f, 1);
    }
    rep.assume("the close-order rule is a pure function of one returned event list; it is evaluated on every event list of this run (every role, version, error and timeout path of the alphabet) and rides along in every other endpoint exploration");
}

pub fn all_configs() -> Vec<EpCfg> {
    let mut v = vec![];
    for t in [false, true] {
        v.extend(c07_configs(t));
        v.extend(c08_configs(t));
        v.extend(c12_configs(t));
        v.extend(c13_configs(t));
        v.extend(c14_configs(t));
        v.extend(c15_configs(t));
        v.extend(c19_configs(t));
    }
    v
}
pub fn replay(config: &str, labels: &[String]) -> Result<Vec<String>, String> {
    replay_in::<u16>(all_configs(), config, labels)
}
