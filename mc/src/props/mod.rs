pub mod c05;
pub mod c06;
pub mod c09;
pub mod c11;
pub mod c17;
pub mod c20;
pub mod epc;
pub mod eps;
