pub mod c20;
