//! C04 — decoder totality and canonical acceptance (ENUM over the byte space).
use crate::bridge::{self, Built, Pid};
use crate::genpk;
use crate::refcodec::{self as rc, Framed, PVal, Ver, AP};
use crate::report::{Report, Violation};
use crate::util::{guarded, hex_trunc};
use mqtt_protocol_core::mqtt::packet::{self as pk, DecodeResult, GenericPacketTrait, MqttBinary, MqttString, PropertiesParse, PropertiesSize, VariableByteInteger};
use serde_json::json;
use std::collections::BTreeMap;

#[derive(Default)]
struct Acc {
    evals: u64,
    accepted: u64,
    viols: BTreeMap<String, Violation>,
    accepted_by_ep: BTreeMap<String, u64>,
}
impl Acc {
    fn viol(&mut self, rule: &str, ep: &str, class: &str, input: &[u8], detail: String) {
        // the signature names the packet kind, not the flag / id-width / mutation variant
        let kind = ep.split(" flags=").next().unwrap_or(ep).replace(" (mutated seed)", "").replace(" u16", "").replace(" u32", "");
        let sig = format!("{rule}|{kind}|{class}");
        self.viols.entry(sig.clone()).or_insert_with(|| Violation {
            rule: rule.into(),
            sig,
            detail: format!("[{ep}] input {}: {detail}", hex_trunc(input, 48)),
            config: format!("c04 {ep}"),
            history: vec![json!(ep), json!(crate::util::hex(&input[..input.len().min(4096)]))],
        });
    }
    fn merge(&mut self, o: Acc) {
        self.evals += o.evals;
        self.accepted += o.accepted;
        for (k, v) in o.viols {
            self.viols.entry(k).or_insert(v);
        }
        for (k, v) in o.accepted_by_ep {
            *self.accepted_by_ep.entry(k).or_insert(0) += v;
        }
    }
}

fn all_strings_utf8(ap: &AP) -> bool {
    fn props_ok(ps: &[rc::Prop]) -> bool {
        ps.iter().all(|p| match &p.val {
            PVal::Str(s) => std::str::from_utf8(s).is_ok(),
            PVal::Pair(a, b) => std::str::from_utf8(a).is_ok() && std::str::from_utf8(b).is_ok(),
            _ => true,
        })
    }
    match ap {
        AP::Connect { client_id, will, user, props, .. } => std::str::from_utf8(client_id).is_ok() && will.as_ref().map(|w| std::str::from_utf8(&w.topic).is_ok() && props_ok(&w.props)).unwrap_or(true) && user.as_ref().map(|u| std::str::from_utf8(u).is_ok()).unwrap_or(true) && props_ok(props),
        AP::Publish { topic, props, .. } => std::str::from_utf8(topic).is_ok() && props_ok(props),
        AP::Subscribe { entries, props, .. } => entries.iter().all(|e| std::str::from_utf8(&e.0).is_ok()) && props_ok(props),
        AP::Unsubscribe { filters, props, .. } => filters.iter().all(|e| std::str::from_utf8(e).is_ok()) && props_ok(props),
        AP::Connack { props, .. } | AP::Suback { props, .. } | AP::Unsuback { props, .. } => props_ok(props),
        AP::Ack { props, .. } | AP::Disconnect { props, .. } | AP::Auth { props, .. } => props.as_ref().map(|p| props_ok(p)).unwrap_or(true),
        _ => true,
    }
}

/// one packet parser entry point on one body
fn check_packet<P: Pid>(ep: &str, ver: Ver, ty: u8, flags: u8, body: &[u8], acc: &mut Acc) {
    acc.evals += 1;
    let r = guarded(|| bridge::parse_body::<P>(ver, ty, flags, body));
    let (p, consumed) = match r {
        Err(m) => {
            acc.viol("c04.panic", ep, &crate::util::panic_sig(&m), body, format!("the parser panicked: {m}"));
            return;
        }
        Ok(Some(Ok(x))) => x,
        _ => return,
    };
    acc.accepted += 1;
    *acc.accepted_by_ep.entry(ep.to_string()).or_insert(0) += 1;
    if consumed > body.len() {
        acc.viol("c04.consumed", ep, "over", body, format!("claims to have consumed {} of {} bytes", consumed, body.len()));
    }
    let r = guarded(|| {
        let mut v: Vec<(&'static str, String, String)> = vec![];
        let bytes = p.to_continuous_buffer();
        if p.size() != bytes.len() {
            v.push(("c04.size", "size".into(), format!("accepted packet reports size() {} but serialises to {} bytes ({})", p.size(), bytes.len(), hex_trunc(&bytes, 32))));
        }
        match rc::frame_one(&bytes) {
            Framed::Frame { used, body: b2, ty: t2, flags: f2, .. } => {
                if used != bytes.len() {
                    v.push(("c04.remaining-length", "rl".into(), format!("the serialisation's Remaining Length frames {} bytes, {} follow ({})", used, bytes.len(), hex_trunc(&bytes, 32))));
                } else {
                    // "accepted input is canonical and valid": what the parser consumed is the packet's own
                    // encoding, or at least a conformant alternative encoding of it (strict reference decoder) -
                    // not bytes that the parser silently repaired
                    let given = &body[..consumed.min(body.len())];
                    if b2 != given && rc::decode_body(ver, ty, flags, given, P::W).is_err() {
                        let i = b2.iter().zip(given.iter()).position(|(x, y)| x != y).unwrap_or(b2.len().min(given.len()));
                        // (one known leniency has its own class: a v5.0 PUBLISH body that ends before the
                        // mandatory Property Length byte is read as "no properties, no payload")
                        let class = if ty == 3 && ver == Ver::V5 && b2.len() == given.len() + 1 && b2[..given.len()] == *given && b2[given.len()] == 0 { "publish-without-property-length".to_string() } else { format!("body+{i}") };
                        v.push(("c04.noncanonical-input", class, format!("the parser accepts {} but the packet it returns serialises to {} - the input is not a conformant encoding, it was silently normalised", hex_trunc(given, 24), hex_trunc(&b2, 24))));
                    }
                    match bridge::parse_body::<P>(ver, t2, f2, &b2) {
                        Some(Ok((p2, _))) => {
                            if p2 != p {
                                v.push(("c04.reparse", "differs".into(), "re-parsing the accepted packet's serialisation yields a different packet".into()));
                            }
                        }
                        _ => v.push(("c04.reparse", "rejected".into(), format!("the accepted packet's own serialisation is rejected ({})", hex_trunc(&bytes, 32)))),
                    }
                }
            }
            other => v.push(("c04.remaining-length", "frame".into(), format!("the serialisation does not frame: {other:?}"))),
        }
        let ap = bridge::read(&p);
        if !all_strings_utf8(&ap) {
            v.push(("c04.utf8", "utf8".into(), "an accepted string is not valid UTF-8".into()));
        }
        // builder agreement: the packet's own field values must be accepted by the public builder
        match bridge::build::<P>(&ap) {
            Built::Ok(b) => {
                if b != p {
                    let bb = b.to_continuous_buffer();
                    // a different but specification-conformant encoding of the same field values is fine
                    // (e.g. an omitted property length); anything else is a packet no builder can produce
                    if bb != bytes && rc::decode(ver, &bytes, P::W).is_err() {
                        let i = bb.iter().zip(bytes.iter()).position(|(x, y)| x != y).unwrap_or(bb.len().min(bytes.len()));
                        v.push(("c04.builder-agreement", format!("unbuildable-nonconformant@{}", if i <= 1 { "header".to_string() } else { format!("body+{}", i.saturating_sub(1 + rc::enc_vbi((bytes.len() - 2) as u32).len())) }), format!("the accepted packet is not a conformant encoding and no builder can produce it: building from its field values gives {} but it serialises to {}", hex_trunc(&bb, 32), hex_trunc(&bytes, 32))));
                    }
                }
            }
            Built::Rejected(e) => v.push(("c04.builder-agreement", builder_class(&ap), format!("the parser accepts field values the builder of the same kind rejects with {e:?}: {}", crate::conn::ap_short(&ap)))),
            Built::Inexpressible(m) => v.push(("c04.builder-agreement", format!("inexpressible:{m}"), format!("the parser accepts field values the typed builder API cannot even express ({m}): {}", crate::conn::ap_short(&ap)))),
        }
        v
    });
    match r {
        Ok(v) => {
            for (rule, class, d) in v {
                acc.viol(rule, ep, &class, body, d);
            }
        }
        Err(m) => acc.viol("c04.panic", ep, &crate::util::panic_sig(&m), body, format!("panic while serialising / re-parsing an accepted packet: {m}")),
    }
}

/// which structural rule of the builder the accepted packet violates (signature class)
fn builder_class(ap: &AP) -> String {
    match ap {
        AP::Publish { topic, props, pid, qos, .. } => {
            if *qos > 0 && *pid == Some(0) {
                "packet-id-0".into()
            } else if topic.is_empty() && !props.iter().any(|p| p.id == 0x23) {
                "empty-topic-without-alias".into()
            } else if topic.contains(&b'#') || topic.contains(&b'+') {
                "wildcard-in-topic-name".into()
            } else {
                "other".into()
            }
        }
        AP::Connect { will, client_id, clean, .. } => {
            if will.as_ref().map(|w| w.qos > 2).unwrap_or(false) {
                "will-qos-3".into()
            } else if client_id.is_empty() && !*clean {
                "empty-client-id-persistent".into()
            } else {
                "other".into()
            }
        }
        other => {
            if other.pid() == Some(0) {
                "packet-id-0".into()
            } else {
                "other".into()
            }
        }
    }
}

type Ep = (String, Box<dyn Fn(&[u8], &mut Acc) + Send + Sync>);

fn entry_points() -> Vec<Ep> {
    let mut v: Vec<Ep> = vec![];
    for ver in [Ver::V4, Ver::V5] {
        let vn = ver.level();
        for ty in 1..=15u8 {
            if ty == 15 && ver == Ver::V4 {
                continue;
            }
            let has_id = matches!(ty, 3..=11);
            let flag_set: Vec<u8> = if ty == 3 { (0..16).collect() } else { vec![match ty { 6 | 8 | 10 => 2, _ => 0 }] };
            for flags in flag_set {
                let name = format!("v{vn} type{ty}{} u16", if ty == 3 { format!(" flags={flags:x}") } else { String::new() });
                let n2 = name.clone();
                v.push((name, Box::new(move |b: &[u8], acc: &mut Acc| check_packet::<u16>(&n2, ver, ty, flags, b, acc))));
                if has_id && (ty != 3 || flags & 6 != 0) {
                    let name = format!("v{vn} type{ty}{} u32", if ty == 3 { format!(" flags={flags:x}") } else { String::new() });
                    let n2 = name.clone();
                    v.push((name, Box::new(move |b: &[u8], acc: &mut Acc| check_packet::<u32>(&n2, ver, ty, flags, b, acc))));
                }
            }
        }
    }
    v.push(("Property::parse".into(), Box::new(|b: &[u8], acc: &mut Acc| {
        acc.evals += 1;
        match guarded(|| pk::Property::parse(b)) {
            Err(m) => acc.viol("c04.panic", "Property::parse", &crate::util::panic_sig(&m), b, format!("panic: {m}")),
            Ok(Ok((p, n))) => {
                acc.accepted += 1;
                *acc.accepted_by_ep.entry("Property::parse".into()).or_insert(0) += 1;
                let ser = p.to_continuous_buffer();
                if n > b.len() {
                    acc.viol("c04.consumed", "Property::parse", "over", b, format!("consumed {n} of {}", b.len()));
                }
                if p.size() != ser.len() {
                    acc.viol("c04.size", "Property::parse", "size", b, format!("size() {} != serialised {}", p.size(), ser.len()));
                }
                if ser.len() != n {
                    acc.viol("c04.canonical", "Property::parse", "consumed-vs-serialised", b, format!("accepted {n} input bytes but the property serialises to {} bytes (non-canonical input accepted)", ser.len()));
                }
                match pk::Property::parse(&ser) {
                    Ok((p2, _)) if p2 == p => {}
                    _ => acc.viol("c04.reparse", "Property::parse", "differs", b, "re-parse of the serialisation differs".into()),
                }
                let rp = bridge::read_prop(&p);
                if !matches!(bridge::lib_prop(&rp), Built::Ok(_)) {
                    acc.viol("c04.builder-agreement", "Property::parse", &format!("constructor-rejects:{}", rc::prop_name(rp.id)), b, format!("accepted a value the property's constructor rejects ({})", rc::prop_name(rp.id)));
                }
            }
            _ => {}
        }
    })));
    v.push(("Properties::parse".into(), Box::new(|b: &[u8], acc: &mut Acc| {
        acc.evals += 1;
        match guarded(|| <pk::Properties as PropertiesParse>::parse(b)) {
            Err(m) => acc.viol("c04.panic", "Properties::parse", &crate::util::panic_sig(&m), b, format!("panic: {m}")),
            Ok(Ok((ps, n))) => {
                acc.accepted += 1;
                *acc.accepted_by_ep.entry("Properties::parse".into()).or_insert(0) += 1;
                if n > b.len() {
                    acc.viol("c04.consumed", "Properties::parse", "over", b, format!("consumed {n} of {}", b.len()));
                }
                let body_len = ps.size();
                let canonical = rc::enc_vbi(body_len as u32).len() + body_len;
                if canonical != n {
                    acc.viol("c04.canonical", "Properties::parse", "consumed-vs-serialised", b, format!("accepted {n} input bytes but the property list re-serialises to {canonical} bytes (non-canonical input accepted)"));
                }
            }
            _ => {}
        }
    })));
    v.push(("SubEntry::parse".into(), Box::new(|b: &[u8], acc: &mut Acc| {
        acc.evals += 1;
        match guarded(|| pk::SubEntry::parse(b)) {
            Err(m) => acc.viol("c04.panic", "SubEntry::parse", &crate::util::panic_sig(&m), b, format!("panic: {m}")),
            Ok(Ok((e, n))) => {
                acc.accepted += 1;
                *acc.accepted_by_ep.entry("SubEntry::parse".into()).or_insert(0) += 1;
                let ser = e.to_continuous_buffer();
                if n > b.len() || e.size() != ser.len() || ser.len() != n {
                    acc.viol("c04.size", "SubEntry::parse", "size", b, format!("consumed {n}, size() {}, serialised {}", e.size(), ser.len()));
                }
                if std::str::from_utf8(e.topic_filter().as_bytes()).is_err() {
                    acc.viol("c04.utf8", "SubEntry::parse", "utf8", b, "topic filter not UTF-8".into());
                }
                if pk::SubEntry::new(e.topic_filter(), *e.sub_opts()).is_err() || pk::SubOpts::from_u8(e.sub_opts().to_buffer()[0]).is_err() {
                    acc.viol("c04.builder-agreement", "SubEntry::parse", "constructor-rejects", b, "SubEntry::new rejects the parsed values".into());
                }
            }
            _ => {}
        }
    })));
    v.push(("MqttString::decode".into(), Box::new(|b: &[u8], acc: &mut Acc| {
        acc.evals += 1;
        match guarded(|| MqttString::decode(b)) {
            Err(m) => acc.viol("c04.panic", "MqttString::decode", &crate::util::panic_sig(&m), b, format!("panic: {m}")),
            Ok(Ok((s, n))) => {
                acc.accepted += 1;
                *acc.accepted_by_ep.entry("MqttString::decode".into()).or_insert(0) += 1;
                if n > b.len() || s.size() != n || s.to_continuous_buffer() != b[..n] {
                    acc.viol("c04.size", "MqttString::decode", "size", b, format!("consumed {n}, size() {}", s.size()));
                }
                if std::str::from_utf8(&b[2..n]).is_err() || s.as_str().as_bytes() != &b[2..n] {
                    acc.viol("c04.utf8", "MqttString::decode", "utf8", b, "accepted bytes are not valid UTF-8".into());
                }
            }
            _ => {}
        }
    })));
    v.push(("MqttBinary::decode".into(), Box::new(|b: &[u8], acc: &mut Acc| {
        acc.evals += 1;
        match guarded(|| MqttBinary::decode(b)) {
            Err(m) => acc.viol("c04.panic", "MqttBinary::decode", &crate::util::panic_sig(&m), b, format!("panic: {m}")),
            Ok(Ok((s, n))) => {
                acc.accepted += 1;
                *acc.accepted_by_ep.entry("MqttBinary::decode".into()).or_insert(0) += 1;
                if n > b.len() || s.size() != n || s.as_slice() != &b[2..n] {
                    acc.viol("c04.size", "MqttBinary::decode", "size", b, format!("consumed {n}, size() {}", s.size()));
                }
            }
            _ => {}
        }
    })));
    v.push(("VariableByteInteger::decode_stream".into(), Box::new(|b: &[u8], acc: &mut Acc| {
        acc.evals += 1;
        match guarded(|| VariableByteInteger::decode_stream(b)) {
            Err(m) => acc.viol("c04.panic", "VariableByteInteger::decode_stream", &crate::util::panic_sig(&m), b, format!("panic: {m}")),
            Ok(DecodeResult::Ok(vbi, n)) => {
                acc.accepted += 1;
                *acc.accepted_by_ep.entry("VariableByteInteger::decode_stream".into()).or_insert(0) += 1;
                let want = rc::dec_vbi_lenient(b).ok();
                if n > b.len() || n > 4 || want.map(|w| w.0) != Some(vbi.to_u32()) {
                    acc.viol("c04.size", "VariableByteInteger::decode_stream", "value", b, format!("decoded {} consuming {n}; reference {want:?}", vbi.to_u32()));
                }
                if vbi.size() != n {
                    acc.viol("c04.canonical", "VariableByteInteger::decode_stream", "non-minimal", b, format!("accepted a non-minimal encoding: {n} input bytes for a value that serialises to {}", vbi.size()));
                }
            }
            _ => {}
        }
    })));
    v
}

const SYMS: [u8; 24] = [0, 1, 2, 3, 4, 5, 0x7F, 0x80, 0xFF, 0x0B, 0x11, 0x15, 0x1F, 0x21, 0x22, 0x23, 0x24, 0x26, 0x27, b'M', b'Q', b'T', b'#', 0xC0];

/// Bodies longer than the largest Remaining Length (268 435 455): no frame can carry them, but the parsers are
/// public entry points that take any slice. Scripted, not enumerated: one well-formed body of 268 435 456 bytes
/// or a little more per parser whose input length is unbounded. The verdict is the totality clause only (error
/// value or packet, no panic, consumed <= given).
fn oversize_bodies(rep: &mut Report) {
    const MAX_RL: usize = 268_435_455;
    let thorough = rep.thorough();
    let filters = |n: usize, with_opt: bool| -> Vec<u8> {
        let mut v = Vec::with_capacity(n * 65538);
        for _ in 0..n {
            v.extend_from_slice(&[0xFF, 0xFF]);
            v.resize(v.len() + 65535, b'f');
            if with_opt {
                v.push(0);
            }
        }
        v
    };
    let mut cases: Vec<(String, Ver, u8, u8, Box<dyn Fn() -> Vec<u8>>)> = vec![];
    cases.push(("v3.1.1 PUBLISH q0 body of 268435456 bytes".into(), Ver::V4, 3, 0, Box::new(|| { let mut b = vec![0, 1, b'a']; b.resize(MAX_RL + 1, 0x55); b })));
    cases.push(("v5.0 PUBLISH q0 body of 268435456 bytes".into(), Ver::V5, 3, 0, Box::new(|| { let mut b = vec![0, 1, b'a', 0]; b.resize(MAX_RL + 1, 0x55); b })));
    if thorough {
        cases.push(("v3.1.1 SUBACK body of 268435456 bytes".into(), Ver::V4, 9, 0, Box::new(|| { let mut b = vec![0, 1]; b.resize(MAX_RL + 1, 0); b })));
        cases.push(("v5.0 SUBACK body of 268435456 bytes".into(), Ver::V5, 9, 0, Box::new(|| { let mut b = vec![0, 1, 0]; b.resize(MAX_RL + 1, 0); b })));
        cases.push(("v5.0 UNSUBACK body of 268435456 bytes".into(), Ver::V5, 11, 0, Box::new(|| { let mut b = vec![0, 1, 0]; b.resize(MAX_RL + 1, 0); b })));
        cases.push(("v3.1.1 SUBSCRIBE with 4096 filters of 65535 bytes".into(), Ver::V4, 8, 2, Box::new(move || { let mut b = vec![0, 1]; b.extend(filters(4096, true)); b })));
        cases.push(("v5.0 SUBSCRIBE with 4096 filters of 65535 bytes".into(), Ver::V5, 8, 2, Box::new(move || { let mut b = vec![0, 1, 0]; b.extend(filters(4096, true)); b })));
        cases.push(("v3.1.1 UNSUBSCRIBE with 4097 filters of 65535 bytes".into(), Ver::V4, 10, 2, Box::new(move || { let mut b = vec![0, 1]; b.extend(filters(4097, false)); b })));
        cases.push(("v5.0 UNSUBSCRIBE with 4097 filters of 65535 bytes".into(), Ver::V5, 10, 2, Box::new(move || { let mut b = vec![0, 1, 0]; b.extend(filters(4097, false)); b })));
        // v5.0 acknowledgement whose property block has the largest expressible Property Length region:
        // 3 + 4 + 268 435 452 bytes
        for (name, ty, flags) in [("PUBACK", 4u8, 0u8), ("PUBREC", 5, 0), ("PUBREL", 6, 2), ("PUBCOMP", 7, 0)] {
            cases.push((format!("v5.0 {name} with a property block of 268435452 bytes"), Ver::V5, ty, flags, Box::new(|| {
                let mut b: Vec<u8> = vec![0, 1, 0];
                b.extend_from_slice(&[0xFC, 0xFF, 0xFF, 0x7F]); // 268 435 452
                for _ in 0..2047 {
                    b.push(0x26);
                    b.extend_from_slice(&[0xFF, 0xFF]);
                    b.resize(b.len() + 65535, b'k');
                    b.extend_from_slice(&[0xFF, 0xFF]);
                    b.resize(b.len() + 65535, b'v');
                }
                b.push(0x26);
                b.extend_from_slice(&[0, 1, b'k']);
                let vlen = 268_435_452usize - 2047 * 131_075 - 6;
                b.extend_from_slice(&[(vlen >> 8) as u8, (vlen & 0xff) as u8]);
                b.resize(b.len() + vlen, b'v');
                b
            })));
        }
    }
    let mut n = 0u64;
    for (label, ver, ty, flags, mk) in cases {
        n += 1;
        let label2 = label.clone();
        let r = guarded(move || -> Option<String> {
            let body = mk();
            assert!(body.len() > MAX_RL, "harness: body of {} bytes is not oversize", body.len());
            match bridge::parse_body::<u16>(ver, ty, flags, &body) {
                Some(Ok((_, consumed))) if consumed > body.len() => Some(format!("parser claims to have consumed {consumed} of {} bytes", body.len())),
                _ => None,
            }
        });
        match r {
            Ok(None) => {}
            Ok(Some(d)) => rep.violation(Violation { rule: "c04.consumed".into(), sig: format!("c04.consumed|oversize-body|{}", label2.split(" with ").next().unwrap_or("").split(" body").next().unwrap_or("")), detail: format!("[{label2}] {d}"), config: "c04 oversize bodies".into(), history: vec![json!(label2)] }),
            Err(m) => rep.violation(Violation { rule: "c04.panic".into(), sig: format!("c04.panic|oversize-body|{}", label2.split(" with ").next().unwrap_or("").split(" body").next().unwrap_or("")), detail: format!("[{label2}] the parser panicked instead of returning an error value: {m}"), config: "c04 oversize bodies".into(), history: vec![json!(label2)] }),
        }
    }
    rep.count("c04.oversize-bodies", n);
    rep.floor("c04.oversize-bodies", 2);
}

pub fn run(rep: &mut Report) {
    oversize_bodies(rep);
    let thorough = rep.thorough();
    let eps = entry_points();
    // (a) all byte strings up to length 3 (quick) / 4 (thorough, on the cheap non-PUBLISH parsers 3 on PUBLISH flag variants)
    let full_len = if thorough { 4 } else { 3 };
    let items: Vec<(usize, u8)> = (0..eps.len()).flat_map(|e| (0..=255u8).map(move |b| (e, b))).collect();
    let parts: Vec<Acc> = crate::util::par_map(items.len(), |i| {
        let (e, b0) = items[i];
        let (name, f) = &eps[e];
        let mut acc = Acc::default();
        let len = if name.contains("type3") && name.contains("flags=") && thorough { 3 } else { full_len };
        if b0 == 0 {
            f(&[], &mut acc);
        }
        let mut buf = [b0, 0, 0, 0];
        f(&buf[..1], &mut acc);
        if len >= 2 {
            for b1 in 0..=255u8 {
                buf[1] = b1;
                f(&buf[..2], &mut acc);
                if len >= 3 {
                    for b2 in 0..=255u8 {
                        buf[2] = b2;
                        f(&buf[..3], &mut acc);
                        if len >= 4 {
                            for b3 in 0..=255u8 {
                                buf[3] = b3;
                                f(&buf[..4], &mut acc);
                            }
                        }
                    }
                }
            }
        }
        acc
    });
    let mut tot = Acc::default();
    for p in parts {
        tot.merge(p);
    }
    let full_evals = tot.evals;
    // (b) reduced alphabet, longer strings
    let red_len = if thorough { 6 } else { 5 };
    let items: Vec<(usize, usize)> = (0..eps.len()).flat_map(|e| (0..SYMS.len()).map(move |s| (e, s))).collect();
    let parts: Vec<Acc> = crate::util::par_map(items.len(), |i| {
        let (e, s0) = items[i];
        let (_name, f) = &eps[e];
        let mut acc = Acc::default();
        let mut idx = vec![0usize; red_len];
        let mut buf = vec![0u8; red_len];
        // all strings of length 4..=red_len starting with SYMS[s0]
        for len in 4..=red_len {
            for x in idx.iter_mut() {
                *x = 0;
            }
            loop {
                buf[0] = SYMS[s0];
                for k in 1..len {
                    buf[k] = SYMS[idx[k]];
                }
                f(&buf[..len], &mut acc);
                let mut k = len - 1;
                loop {
                    if k == 0 {
                        break;
                    }
                    idx[k] += 1;
                    if idx[k] < SYMS.len() {
                        break;
                    }
                    idx[k] = 0;
                    k -= 1;
                }
                if k == 0 {
                    break;
                }
            }
        }
        acc
    });
    for p in parts {
        tot.merge(p);
    }
    let red_evals = tot.evals - full_evals;
    // (c) every single mutation (thorough: every pair on short seeds) of every seed body
    let mut seeds: Vec<(Ver, usize, u8, u8, Vec<u8>)> = vec![];
    for ver in [Ver::V4, Ver::V5] {
        for w in [2usize, 4] {
            for kind in genpk::kinds(ver, w, 0) {
                genpk::enumerate(&kind, 1, &mut |_l, ap| {
                    let b = rc::encode(ap, w);
                    // (long seeds - maximum-length strings, 64 KiB payloads - are parsed as they are; only
                    // seeds of up to 300 bytes are mutated)
                    if let Framed::Frame { ty, flags, body, .. } = rc::frame_one(&b) {
                        seeds.push((ver, w, ty, flags, body));
                    }
                });
            }
        }
    }
    // the connection-level stimulus seeds as well (they include packets the abstract space with one deviation does
    // not: a once-only property repeated 256 / 257 times, special string contents)
    for ver in [Ver::V4, Ver::V5] {
        for w in [2usize, 4] {
            for (_l, ap) in crate::stim::seeds(ver, w) {
                if let Framed::Frame { ty, flags, body, .. } = rc::frame_one(&rc::encode(&ap, w)) {
                    seeds.push((ver, w, ty, flags, body));
                }
            }
        }
    }
    let n_seeds = seeds.len();
    let parts: Vec<Acc> = crate::util::par_map(seeds.len(), |i| {
        let (ver, w, ty, flags, body) = &seeds[i];
        let mut acc = Acc::default();
        let ep = format!("v{} type{} {} (mutated seed)", ver.level(), ty, if *w == 2 { "u16" } else { "u32" });
        let run = |b: &[u8], acc: &mut Acc| {
            if *w == 2 {
                check_packet::<u16>(&ep, *ver, *ty, *flags, b, acc)
            } else {
                check_packet::<u32>(&ep, *ver, *ty, *flags, b, acc)
            }
        };
        run(body, &mut acc);
        if body.len() > 300 {
            return acc;
        }
        let level = if thorough { 1 } else { 0 };
        let muts = crate::stim::mutations("", body, level);
        for (_, m) in &muts {
            run(m, &mut acc);
        }
        if !thorough {
            // the quick menu of stim::mutations flips bits 0 and 7 only: flip the other six as well
            // (flag bytes such as the CONNECT flags carry one meaning per bit)
            for i in 0..body.len().min(64) {
                for bit in 1..7u8 {
                    let mut m = body.clone();
                    m[i] ^= 1 << bit;
                    run(&m, &mut acc);
                }
            }
        }
        if thorough && body.len() <= 12 {
            for (_, m) in &muts {
                for (_, m2) in crate::stim::mutations("", m, 0) {
                    run(&m2, &mut acc);
                }
            }
        }
        acc
    });
    for p in parts {
        tot.merge(p);
    }
    let mut_evals = tot.evals - full_evals - red_evals;
    // (d) where a peer's bytes really enter: a connected connection (totality only)
    let mut conn_evals = 0u64;
    for ver in [Ver::V4, Ver::V5] {
        for role in [crate::conn::RoleK::Client, crate::conn::RoleK::Server] {
            let base = connected(role, ver);
            let r: Vec<(u64, Option<Violation>)> = crate::util::par_map(256, |b0| {
                let mut n = 0u64;
                let mut viol = None;
                for b1 in 0..=255u8 {
                    for tail in [&[][..], &[0u8][..], &[0u8, 1][..], &[0u8, 1, b'a', 0, 1][..]] {
                        let mut input = vec![b0 as u8, b1];
                        input.extend_from_slice(tail);
                        n += 1;
                        let mut c = base.clone();
                        let r = guarded(|| {
                            let (lists, used) = c.recv_all(&input);
                            (lists.len(), used)
                        });
                        match r {
                            Err(m) if viol.is_none() => viol = Some(Violation { rule: "c04.recv-panic".into(), sig: format!("c04.recv-panic|{}", crate::util::panic_sig(&m)), detail: format!("recv panicked on {} ({role:?} {ver:?}): {m}", crate::util::hex(&input)), config: "c04 recv".into(), history: vec![json!(crate::util::hex(&input))] }),
                            Ok((_, used)) if used > input.len() && viol.is_none() => viol = Some(Violation { rule: "c04.recv-cursor".into(), sig: "c04.recv-cursor".into(), detail: format!("cursor moved past the input on {}", crate::util::hex(&input)), config: "c04 recv".into(), history: vec![json!(crate::util::hex(&input))] }),
                            _ => {}
                        }
                    }
                }
                (n, viol)
            });
            for (n, v) in r {
                conn_evals += n;
                if let Some(v) = v {
                    rep.violation(v);
                }
            }
        }
    }
    for (_, v) in std::mem::take(&mut tot.viols) {
        rep.violation(v);
    }
    rep.set_cov("evaluations", json!(tot.evals + conn_evals));
    rep.set_cov("distinct_nontrivial", json!(tot.accepted));
    rep.set_cov("entry_points", json!(eps.len()));
    rep.set_cov("full_alphabet_inputs", json!(full_evals));
    rep.set_cov("reduced_alphabet_inputs", json!(red_evals));
    rep.set_cov("mutation_inputs", json!(mut_evals));
    rep.set_cov("seeds", json!(n_seeds));
    rep.set_cov("connection_recv_inputs", json!(conn_evals));
    rep.set_cov("accepted_by_entry_point", json!(tot.accepted_by_ep));
    rep.set_cov("exhaustive", json!(true));
    rep.set_cov("rule", json!(format!("every byte string of length <= {full_len} for every parser entry point; every string of length 4..={red_len} over a 24-symbol alphabet; every single mutation{} (all eight bit flips per byte, deletion, truncation, body cut / extension, non-minimal length) of every seed body (abstract space with <= 1 deviation); distinct_nontrivial = inputs a parser accepted (each then checked for size / Remaining Length / re-parse / UTF-8 / builder agreement)", if thorough { " and every pair on seeds <= 12 bytes" } else { "" })));
    rep.sample(json!({"entry_points": eps.iter().take(8).map(|e| e.0.clone()).collect::<Vec<_>>()}));
    rep.count("c04.accepted", tot.accepted);
    rep.floor("c04.accepted", 10_000);
    rep.assume("uniformly random strings, which the property text also mentions, are not used: sampling is outside this family; exhaustive short strings and exhaustive mutation sets bound the same space");
}

fn connected(role: crate::conn::RoleK, ver: Ver) -> crate::conn::ConnBox<u16> {
    use crate::ep::{AckProf, ConnProf};
    let mut c = crate::conn::ConnBox::<u16>::new(role, Some(ver));
    c.set_auto_pub_response(true);
    c.set_auto_ping_response(true);
    if role == crate::conn::RoleK::Client {
        let _ = c.send(bridge::build::<u16>(&ConnProf::basic(true).ap(ver)).ok().unwrap());
        let _ = c.recv_all(&rc::encode(&AckProf::basic(false).ap(ver), 2));
    } else {
        let _ = c.recv_all(&rc::encode(&ConnProf::basic(true).ap(ver), 2));
        let _ = c.send(bridge::build::<u16>(&AckProf::basic(false).ap(ver)).ok().unwrap());
    }
    c
}

pub fn replay(v: &serde_json::Value) -> Result<Vec<String>, String> {
    Ok(vec![format!("entry point: {}", v["history"][0]), format!("input: {}", v["history"][1]), format!("detail: {}", v["detail"])])
}
