//! C01 — two library endpoints interoperate, even across transport loss (engine PAIR).
//!
//! State = (real client connection, real server connection, byte queue c->s, byte queue s->c,
//! both application models incl. remaining workload, delivery accounting). Each side's outgoing
//! bytes are the other side's input: no hand-written byte array stands between them.
use super::epc::ver_name;
use crate::bridge::{self, Pid};
use crate::conn::{ConnBox, Ev, RoleK, Tk};
use crate::ep::{Al, TOPICS};
use crate::explore::{Explorer, Limits, StepOut, World};
use crate::refcodec::{AckKind, PVal, Prop, Ver, AP};
use crate::report::{Report, Violation};
use mqtt_protocol_core::mqtt::result_code::MqttError;
use serde_json::json;
use std::collections::VecDeque;
use std::sync::Arc;

#[derive(Clone, Debug)]
pub struct PairCfg {
    pub name: String,
    pub ver: Ver,
    pub auto_c: bool,
    pub auto_s: bool,
    pub auto_ping: bool,
    /// Receive Maximum announced by the client (limits the server) / by the server (limits the client)
    pub rm_c: Option<u16>,
    pub rm_s: Option<u16>,
    /// Topic Alias Maximum announced by each side
    pub tam: u16,
    /// 0 manual, 1 auto-map, 2 auto-replace
    pub alias_mode: u8,
    pub mps: Option<u32>,
    pub ka: u16,
    pub ops_total: u8,
    pub ops_per_side: u8,
    pub partials: u8,
    pub losses: u8,
    pub timer_fires: u8,
    pub sub_ops: bool,
    /// manual responses: the application may send the PUBREL it owes later (also after a loss and resume)
    pub defer_pubrel: bool,
    /// workload topic t is TOPICS[t + topic_off] (1: 'bb' and the 10-byte 'topic/long')
    pub topic_off: u8,
    /// extra payload bytes of a publish that uses an alias with an empty topic: with a long topic the
    /// packet on the wire is then smaller than the registering one, but its store copy (full topic) is not
    pub use_extra: u8,
    /// manual responses (v5.0): the receiving application refuses every message (PUBACK / PUBREC with this failure
    /// reason code): the exchange ends there, identifiers and Receive Maximum slots come back all the same
    pub refuse_code: Option<u8>,
    /// v5.0: every publish carries a User Property with a value of this many bytes (0 = none): with 120 the
    /// property block of an alias-registering PUBLISH is 129 bytes and that of its stored copy 126
    pub pub_pad: usize,
    /// restrict the workload to publishes of this QoS on the first topic, issued by the client only (keeps a
    /// four-operation workload small: four exchanges in flight at once)
    pub only_q: Option<u8>,
}

#[derive(Clone, Copy, Debug, PartialEq, Eq, Hash)]
pub enum Op {
    Pub { q: u8, t: u8, al: Al },
    Sub,
    Unsub,
    Ping,
}

#[derive(Clone, Debug, PartialEq, Eq, Hash)]
pub enum Act {
    COp(Op),
    SOp(Op),
    /// deliver the next whole frame (or the rest of a partially delivered one) c->s (true) / s->c
    Deliver(bool),
    DeliverPartial(bool, u8),
    Timer(bool, Tk),
    Lose,
    /// the application of the client (true) / server sends the PUBREL it still owes for this id
    Owed(bool, u32),
}

#[derive(Clone, Debug, PartialEq, Eq, Hash)]
struct Msg {
    from_client: bool,
    q: u8,
    t: u8,
    accepted: bool,
    notified: u8,
    /// a transport was lost while this message was in flight or later
    lossy: bool,
    /// the receiving application answered with a failure code (the sender may then present the message again
    /// after a loss: "exactly once" is only demanded without one)
    refused: bool,
}

#[derive(Clone, Copy, Debug, PartialEq, Eq, Hash)]
enum St {
    Disc,
    Connecting,
    Connected,
}

#[derive(Clone)]
pub struct Pair<P: Pid> {
    cfg: Arc<PairCfg>,
    c: ConnBox<P>,
    s: ConnBox<P>,
    c2s: VecDeque<Vec<u8>>,
    s2c: VecDeque<Vec<u8>>,
    c2s_off: usize,
    s2c_off: usize,
    msgs: Vec<Msg>,
    ops_c: u8,
    ops_s: u8,
    losses: u8,
    partials: u8,
    timer_fires: u8,
    c_st: St,
    s_st: St,
    server_has_session: bool,
    c_armed: [bool; 3],
    s_armed: [bool; 3],
    /// PUBRELs the (manual) applications still owe: (client side?, id)
    owed: Vec<(bool, u32)>,
    /// the application's accepted alias registrations on the current connection (alias -> topic)
    c_alias: Vec<(u16, u8)>,
    s_alias: Vec<(u16, u8)>,
}

fn props_connect(cfg: &PairCfg) -> Vec<Prop> {
    let mut p = vec![Prop { id: 0x11, val: PVal::U32(1000) }];
    if let Some(v) = cfg.rm_c {
        p.push(Prop { id: 0x21, val: PVal::U16(v) });
    }
    if let Some(v) = cfg.mps {
        p.push(Prop { id: 0x27, val: PVal::U32(v) });
    }
    if cfg.tam > 0 {
        p.push(Prop { id: 0x22, val: PVal::U16(cfg.tam) });
    }
    p
}
fn props_connack(cfg: &PairCfg) -> Vec<Prop> {
    let mut p = vec![];
    if let Some(v) = cfg.rm_s {
        p.push(Prop { id: 0x21, val: PVal::U16(v) });
    }
    if let Some(v) = cfg.mps {
        p.push(Prop { id: 0x27, val: PVal::U32(v) });
    }
    if cfg.tam > 0 {
        p.push(Prop { id: 0x22, val: PVal::U16(cfg.tam) });
    }
    p
}

impl<P: Pid> Pair<P> {
    pub fn new(cfg: Arc<PairCfg>) -> Self {
        let mut c = ConnBox::<P>::new(RoleK::Client, Some(cfg.ver));
        let mut s = ConnBox::<P>::new(RoleK::Server, Some(cfg.ver));
        c.set_auto_pub_response(cfg.auto_c);
        s.set_auto_pub_response(cfg.auto_s);
        s.set_auto_ping_response(cfg.auto_ping);
        c.set_auto_map(cfg.alias_mode == 1);
        s.set_auto_map(cfg.alias_mode == 1);
        c.set_auto_replace(cfg.alias_mode == 2);
        s.set_auto_replace(cfg.alias_mode == 2);
        if cfg.ka > 0 {
            c.set_pingresp_recv_timeout(7);
        }
        let mut w = Pair {
            cfg,
            c,
            s,
            c2s: VecDeque::new(),
            s2c: VecDeque::new(),
            c2s_off: 0,
            s2c_off: 0,
            msgs: vec![],
            ops_c: 0,
            ops_s: 0,
            losses: 0,
            partials: 0,
            timer_fires: 0,
            c_st: St::Disc,
            s_st: St::Disc,
            server_has_session: false,
            c_armed: [false; 3],
            s_armed: [false; 3],
            owed: vec![],
            c_alias: vec![],
            s_alias: vec![],
        };
        let mut so = StepOut::new(false);
        w.client_connect(&mut so);
        w
    }

    fn client_connect(&mut self, out: &mut StepOut) {
        let ver = self.cfg.ver;
        let ap = AP::Connect { ver, clean: false, keep_alive: self.cfg.ka, client_id: b"cid".to_vec(), will: None, user: None, pass: None, props: if ver == Ver::V5 { props_connect(&self.cfg) } else { vec![] } };
        let evs = self.c.send(bridge::build::<P>(&ap).ok().expect("connect"));
        self.c_st = St::Connecting;
        self.handle(true, evs, true, out);
    }

    fn viol(&self, out: &mut StepOut, rule: &str, sig: String, detail: String) {
        out.viol(rule, sig, format!("[{}] {}", self.cfg.name, detail));
    }

    /// process the events one library call returned on side `client`
    fn handle(&mut self, client: bool, evs: Vec<Ev>, local_call: bool, out: &mut StepOut) {
        let ver = self.cfg.ver;
        out.say(|| format!("{} {} -> [{}]", if client { "client" } else { "server" }, if local_call { "call" } else { "recv" }, evs.iter().map(|e| e.short()).collect::<Vec<_>>().join(", ")));
        // C19 rides along
        let mut closed = false;
        for e in &evs {
            match e {
                Ev::Close => closed = true,
                Ev::Send { ap, .. } if closed => self.viol(out, "c19.send-after-close", "c19.send-after-close|pair".into(), format!("RequestClose precedes RequestSendPacket({})", crate::conn::ap_short(ap))),
                _ => {}
            }
        }
        let mut replies: Vec<AP> = vec![];
        let mut close_requested = false;
        for e in evs {
            match e {
                Ev::Send { bytes, .. } => {
                    if client {
                        self.c2s.push_back(bytes);
                    } else {
                        self.s2c.push_back(bytes);
                    }
                }
                Ev::TimerReset(k, _) => {
                    if client {
                        self.c_armed[k.idx()] = true
                    } else {
                        self.s_armed[k.idx()] = true
                    }
                }
                Ev::TimerCancel(k) => {
                    if client {
                        self.c_armed[k.idx()] = false
                    } else {
                        self.s_armed[k.idx()] = false
                    }
                }
                Ev::Released(_) => {}
                Ev::Close => close_requested = true,
                Ev::Error(err) => {
                    if !local_call {
                        self.viol(out, "c01.protocol-error", format!("c01.protocol-error|{}|{err:?}", if client { "client" } else { "server" }), format!("the {} reports {err:?} about a peer that is the same library", if client { "client" } else { "server" }));
                    }
                }
                Ev::Recv { ap, .. } => {
                    let auto = if client { self.cfg.auto_c } else { self.cfg.auto_s };
                    match &ap {
                        AP::Connect { .. } => {
                            self.s_st = St::Connecting;
                            replies.push(AP::Connack { ver, sp: self.server_has_session, code: 0, props: if ver == Ver::V5 { props_connack(&self.cfg) } else { vec![] } });
                        }
                        AP::Connack { sp, .. } => {
                            self.c_st = St::Connected;
                            if *sp != self.server_has_session_before() {
                                // informational only
                            }
                        }
                        AP::Publish { qos, pid, topic, payload, .. } => {
                            out.label("c01.publish-notified");
                            let tag = payload.first().copied().unwrap_or(255) as usize;
                            match self.msgs.get_mut(tag) {
                                Some(m) if m.from_client != client && TOPICS[(m.t + self.cfg.topic_off) as usize] == &topic[..] && m.q == *qos && payload.len() >= 2 && payload[1..].iter().all(|b| *b == b'!') => {
                                    m.notified = (m.notified + 1).min(3);
                                }
                                _ => {
                                    let d = format!("the {} was notified of a PUBLISH nobody sent like this: {}", if client { "client" } else { "server" }, crate::conn::ap_short(&ap));
                                    self.viol(out, "c01.foreign-publish", "c01.foreign-publish".into(), d);
                                }
                            }
                            if !auto {
                                let code = if ver == Ver::V5 { self.cfg.refuse_code } else { None };
                                if code.is_some() && *qos > 0 {
                                    if let Some(m) = self.msgs.get_mut(tag) {
                                        m.refused = true;
                                    }
                                    out.label("c01.refused-by-receiver");
                                }
                                match qos {
                                    1 => replies.push(AP::Ack { ver, kind: AckKind::Puback, pid: pid.unwrap(), code, props: None }),
                                    2 => replies.push(AP::Ack { ver, kind: AckKind::Pubrec, pid: pid.unwrap(), code, props: None }),
                                    _ => {}
                                }
                            }
                        }
                        AP::Ack { kind: AckKind::Pubrec, pid, code, .. } if !auto => {
                            if code.map(|c| c < 0x80).unwrap_or(true) {
                                if self.cfg.defer_pubrel {
                                    if !self.owed.contains(&(client, *pid)) {
                                        self.owed.push((client, *pid));
                                        self.owed.sort();
                                    }
                                    out.label("c01.pubrel-deferred");
                                } else {
                                    replies.push(AP::Ack { ver, kind: AckKind::Pubrel, pid: *pid, code: None, props: None });
                                }
                            }
                        }
                        AP::Ack { kind: AckKind::Pubrel, pid, .. } if !auto => replies.push(AP::Ack { ver, kind: AckKind::Pubcomp, pid: *pid, code: None, props: None }),
                        AP::Subscribe { pid, .. } => replies.push(AP::Suback { ver, pid: *pid, props: vec![], codes: vec![0] }),
                        AP::Unsubscribe { pid, .. } => replies.push(AP::Unsuback { ver, pid: *pid, props: vec![], codes: if ver == Ver::V5 { vec![0] } else { vec![] } }),
                        AP::Pingreq { .. } if !self.cfg.auto_ping => replies.push(AP::Pingresp { ver }),
                        _ => {}
                    }
                }
            }
        }
        if close_requested {
            // the library asked to close although both ends are conforming (only a keep-alive
            // timeout may do that; it is handled where the timer fires)
            self.transport_lost(out);
            return;
        }
        for r in replies {
            let is_connack = matches!(r, AP::Connack { .. });
            let evs = if client { self.c.send(bridge::build::<P>(&r).ok().expect("reply")) } else { self.s.send(bridge::build::<P>(&r).ok().expect("reply")) };
            if evs.iter().any(|e| matches!(e, Ev::Error(_))) {
                let d = format!("mandatory reply {} refused: {:?}", crate::conn::ap_short(&r), evs.iter().map(|e| e.short()).collect::<Vec<_>>());
                self.viol(out, "c01.reply-refused", format!("c01.reply-refused|{}", r.kind_name()), d);
            }
            if is_connack {
                self.s_st = St::Connected;
                self.server_has_session = true;
            }
            self.handle(client, evs, true, out);
        }
    }

    fn server_has_session_before(&self) -> bool {
        self.server_has_session
    }

    /// both sides are told the transport closed; everything in flight is discarded; the client
    /// reconnects with the same limits
    fn transport_lost(&mut self, out: &mut StepOut) {
        self.c2s.clear();
        self.s2c.clear();
        self.c2s_off = 0;
        self.s2c_off = 0;
        for m in self.msgs.iter_mut() {
            m.lossy = true;
        }
        let ec = self.c.notify_closed();
        let es = self.s.notify_closed();
        self.c_st = St::Disc;
        self.s_st = St::Disc;
        self.c_armed = [false; 3];
        self.s_armed = [false; 3];
        self.c_alias.clear();
        self.s_alias.clear();
        out.say(|| format!("transport lost: client notify_closed -> {:?}; server notify_closed -> {:?}", ec.iter().map(|e| e.short()).collect::<Vec<_>>(), es.iter().map(|e| e.short()).collect::<Vec<_>>()));
        for e in ec.iter().chain(es.iter()) {
            if matches!(e, Ev::Released(_)) && false {
                // SUBSCRIBE / UNSUBSCRIBE ids are released at close: allowed
            }
        }
        out.label("c01.transport-lost");
        self.client_connect(out);
    }

    fn quiescent(&self) -> bool {
        self.c2s.is_empty() && self.s2c.is_empty() && self.c_st == St::Connected && self.s_st == St::Connected && self.owed.is_empty()
    }

    fn op_enabled(&self, client: bool, op: &Op) -> bool {
        let cfg = &*self.cfg;
        let st = if client { self.c_st } else { self.s_st };
        if st != St::Connected || self.c_st != St::Connected {
            return false; // workloads start once the client has seen CONNACK
        }
        let used = if client { self.ops_c } else { self.ops_s };
        if used >= cfg.ops_per_side || self.ops_c + self.ops_s >= cfg.ops_total {
            return false;
        }
        match op {
            Op::Pub { al, t, .. } => match al {
                Al::No => true,
                Al::Reg(a) => cfg.ver == Ver::V5 && cfg.alias_mode == 0 && *a <= cfg.tam,
                Al::Use(a) => cfg.ver == Ver::V5 && cfg.alias_mode == 0 && (if client { &self.c_alias } else { &self.s_alias }).contains(&(*a, *t)),
            },
            Op::Sub | Op::Unsub | Op::Ping => client && cfg.sub_ops,
        }
    }

    fn do_op(&mut self, client: bool, op: &Op, out: &mut StepOut) {
        let ver = self.cfg.ver;
        if client {
            self.ops_c += 1;
        } else {
            self.ops_s += 1;
        }
        match op {
            Op::Pub { q, t, al } => {
                let tag = self.msgs.len() as u8;
                let conn = if client { &mut self.c } else { &mut self.s };
                let id = if *q > 0 { conn.acquire().ok() } else { None };
                let mut props = vec![];
                let topic = match al {
                    Al::No => TOPICS[(*t + self.cfg.topic_off) as usize].to_vec(),
                    Al::Reg(a) => {
                        props.push(Prop { id: 0x23, val: PVal::U16(*a) });
                        TOPICS[(*t + self.cfg.topic_off) as usize].to_vec()
                    }
                    Al::Use(a) => {
                        props.push(Prop { id: 0x23, val: PVal::U16(*a) });
                        vec![]
                    }
                };
                if self.cfg.pub_pad > 0 && ver == Ver::V5 {
                    props.push(Prop { id: 0x26, val: PVal::Pair(b"k".to_vec(), vec![b'v'; self.cfg.pub_pad]) });
                }
                let mut payload = vec![tag, b'!'];
                if matches!(al, Al::Use(_)) {
                    payload.extend(std::iter::repeat(b'!').take(self.cfg.use_extra as usize));
                }
                let ap = AP::Publish { ver, dup: false, qos: *q, retain: false, topic, pid: id, props, payload };
                let evs = conn.send(bridge::build::<P>(&ap).ok().expect("publish"));
                let errs: Vec<MqttError> = evs.iter().filter_map(|e| if let Ev::Error(x) = e { Some(*x) } else { None }).collect();
                let accepted = errs.is_empty();
                if !accepted {
                    // documented refusal classes of a correctly used connection
                    let ok = errs.iter().all(|e| matches!(e, MqttError::ReceiveMaximumExceeded | MqttError::PacketTooLarge));
                    out.label("c01.local-refusal");
                    if !ok {
                        let d = format!("the {}'s own publish was refused with {errs:?}", if client { "client" } else { "server" });
                        self.viol(out, "c01.local-refusal", format!("c01.local-refusal|{errs:?}"), d);
                    }
                }
                if accepted {
                    if let Al::Reg(a) = al {
                        let v = if client { &mut self.c_alias } else { &mut self.s_alias };
                        v.retain(|x| x.0 != *a);
                        v.push((*a, *t));
                    }
                }
                self.msgs.push(Msg { from_client: client, q: *q, t: *t, accepted, notified: 0, lossy: false, refused: false });
                self.handle(client, evs, true, out);
            }
            Op::Sub | Op::Unsub => {
                let id = self.c.acquire().ok().unwrap_or(0);
                let ap = if *op == Op::Sub { AP::Subscribe { ver, pid: id, props: vec![], entries: vec![(b"f".to_vec(), 0)] } } else { AP::Unsubscribe { ver, pid: id, props: vec![], filters: vec![b"f".to_vec()] } };
                let evs = self.c.send(bridge::build::<P>(&ap).ok().expect("sub"));
                self.handle(true, evs, true, out);
            }
            Op::Ping => {
                let evs = self.c.send(bridge::build::<P>(&AP::Pingreq { ver }).ok().expect("ping"));
                self.handle(true, evs, true, out);
            }
        }
    }

    fn check_quiescent(&self, out: &mut StepOut) {
        if !self.quiescent() {
            return;
        }
        out.label("c01.quiescent");
        for (i, m) in self.msgs.iter().enumerate() {
            if !m.accepted {
                if m.notified > 0 {
                    self.viol(out, "c01.delivery", "c01.delivery|refused-but-delivered".into(), format!("message #{i} was refused by send but notified at the peer"));
                }
                continue;
            }
            let bad = match m.q {
                2 if m.refused && m.lossy => m.notified == 0,
                2 => m.notified != 1,
                1 => m.notified == 0 || (!m.lossy && m.notified != 1),
                _ => m.notified > 1,
            };
            if bad {
                self.viol(out, "c01.delivery", format!("c01.delivery|q{}|notified={}|lossy={}", m.q, m.notified, m.lossy), format!("at quiescence message #{i} (QoS {}, from the {}, transport lost since: {}) was notified {} time(s)", m.q, if m.from_client { "client" } else { "server" }, m.lossy, m.notified));
            } else {
                out.label(match (m.q, m.lossy) {
                    (2, true) => "c01.q2-exactly-once-across-loss",
                    (2, false) => "c01.q2-exactly-once",
                    (1, _) => "c01.q1-delivered",
                    _ => "c01.q0-at-most-once",
                });
            }
        }
        for (name, conn, rm) in [("client", &self.c, self.cfg.rm_s), ("server", &self.s, self.cfg.rm_c)] {
            let s = conn.snap();
            // (every identifier free again: one run from 1 to the largest identifier)
            let idle = s.pid_free == vec![(1u64, if P::W == 2 { 65535u64 } else { u32::MAX as u64 })] && s.store.is_empty() && s.pid_puback.is_empty() && s.pid_pubrec.is_empty() && s.pid_pubcomp.is_empty() && s.pid_suback.is_empty() && s.pid_unsuback.is_empty() && s.qos2_publish_handled.is_empty();
            if !idle {
                self.viol(out, "c01.not-idle", format!("c01.not-idle|{name}"), format!("at quiescence the {name} is not idle: free ids {:?}, store {}, awaiting {:?}/{:?}/{:?}, sub {:?}/{:?}, handled {:?}", s.pid_free, s.store.len(), s.pid_puback, s.pid_pubrec, s.pid_pubcomp, s.pid_suback, s.pid_unsuback, s.qos2_publish_handled));
            }
            if self.cfg.ver == Ver::V5 {
                if conn.vacancy() != rm {
                    self.viol(out, "c01.vacancy", format!("c01.vacancy|{name}"), format!("at quiescence the {name}'s Receive Maximum vacancy is {:?}, negotiated {:?}", conn.vacancy(), rm));
                }
            }
        }
    }
}

impl<P: Pid> World for Pair<P> {
    type Act = Act;
    fn enabled(&self) -> Vec<Act> {
        let cfg = &*self.cfg;
        let mut v = vec![];
        let mut ops: Vec<Op> = vec![];
        for q in 0..=2u8 {
            for t in 0..2u8 {
                ops.push(Op::Pub { q, t, al: Al::No });
                if cfg.tam > 0 && cfg.alias_mode == 0 && cfg.ver == Ver::V5 && q < 2 {
                    ops.push(Op::Pub { q, t, al: Al::Reg(1) });
                    ops.push(Op::Pub { q, t, al: Al::Use(1) });
                }
            }
        }
        ops.extend([Op::Sub, Op::Unsub, Op::Ping]);
        if let Some(oq) = cfg.only_q {
            ops.retain(|o| matches!(o, Op::Pub { q, t: 0, al: Al::No } if *q == oq));
        }
        for op in &ops {
            if cfg.only_q.is_some() && self.op_enabled(true, op) {
                v.push(Act::COp(*op));
                continue;
            }
            if cfg.only_q.is_some() {
                continue;
            }
            if self.op_enabled(true, op) {
                v.push(Act::COp(*op));
            }
            if !matches!(op, Op::Sub | Op::Unsub | Op::Ping) && self.op_enabled(false, op) {
                v.push(Act::SOp(*op));
            }
        }
        for dir in [true, false] {
            let (q, off) = if dir { (&self.c2s, self.c2s_off) } else { (&self.s2c, self.s2c_off) };
            if let Some(f) = q.front() {
                v.push(Act::Deliver(dir));
                if off == 0 && self.partials < cfg.partials {
                    let mut cuts = vec![1usize, 2, f.len() / 2];
                    cuts.retain(|c| *c > 0 && *c < f.len());
                    cuts.dedup();
                    for c in cuts {
                        v.push(Act::DeliverPartial(dir, c as u8));
                    }
                }
            }
        }
        if self.timer_fires < cfg.timer_fires {
            for k in Tk::ALL {
                if self.c_armed[k.idx()] {
                    v.push(Act::Timer(true, k));
                }
                if self.s_armed[k.idx()] {
                    v.push(Act::Timer(false, k));
                }
            }
        }
        if self.losses < cfg.losses {
            v.push(Act::Lose);
        }
        for (client, id) in &self.owed {
            let st = if *client { self.c_st } else { self.s_st };
            if st == St::Connected && self.c_st == St::Connected {
                v.push(Act::Owed(*client, *id));
            }
        }
        v
    }
    fn step(&mut self, a: &Act, out: &mut StepOut) {
        match a {
            Act::COp(op) => self.do_op(true, op, out),
            Act::SOp(op) => self.do_op(false, op, out),
            Act::Deliver(dir) => {
                let (frame, off) = if *dir { (self.c2s.pop_front().unwrap(), std::mem::take(&mut self.c2s_off)) } else { (self.s2c.pop_front().unwrap(), std::mem::take(&mut self.s2c_off)) };
                let (lists, n) = if *dir { self.s.recv_all(&frame[off..]) } else { self.c.recv_all(&frame[off..]) };
                if n != frame.len() - off {
                    self.viol(out, "c01.bytes-left", "c01.bytes-left".into(), format!("{} of {} delivered bytes were consumed", n, frame.len() - off));
                }
                for evs in lists {
                    self.handle(!*dir, evs, false, out);
                }
            }
            Act::DeliverPartial(dir, cut) => {
                self.partials += 1;
                let cut = *cut as usize;
                let part: Vec<u8> = if *dir { self.c2s.front().unwrap()[..cut].to_vec() } else { self.s2c.front().unwrap()[..cut].to_vec() };
                let (lists, _n) = if *dir { self.s.recv_all(&part) } else { self.c.recv_all(&part) };
                if *dir {
                    self.c2s_off = cut;
                } else {
                    self.s2c_off = cut;
                }
                for evs in lists {
                    if !evs.is_empty() {
                        self.viol(out, "c01.partial-events", "c01.partial-events".into(), format!("an incomplete frame produced events {:?}", evs.iter().map(|e| e.short()).collect::<Vec<_>>()));
                    }
                }
                out.label("c01.partial-delivery");
            }
            Act::Timer(client, k) => {
                self.timer_fires += 1;
                if *client {
                    self.c_armed[k.idx()] = false;
                } else {
                    self.s_armed[k.idx()] = false;
                }
                let evs = if *client { self.c.notify_timer_fired(*k) } else { self.s.notify_timer_fired(*k) };
                out.label("c01.timer-fired");
                // a keep-alive timeout legitimately closes the transport: treated as a loss
                self.handle(*client, evs, true, out);
            }
            Act::Owed(client, id) => {
                self.owed.retain(|x| x != &(*client, *id));
                let r = AP::Ack { ver: self.cfg.ver, kind: AckKind::Pubrel, pid: *id, code: None, props: None };
                let evs = if *client { self.c.send(bridge::build::<P>(&r).ok().expect("pubrel")) } else { self.s.send(bridge::build::<P>(&r).ok().expect("pubrel")) };
                if evs.iter().any(|e| matches!(e, Ev::Error(_))) {
                    let d = format!("the PUBREL the application owes for id {id} is refused: {:?}", evs.iter().map(|e| e.short()).collect::<Vec<_>>());
                    self.viol(out, "c01.reply-refused", "c01.reply-refused|PUBREL(deferred)".into(), d);
                }
                out.label("c01.owed-pubrel-sent");
                self.handle(*client, evs, true, out);
            }
            Act::Lose => {
                self.losses += 1;
                if self.c2s_off > 0 || self.s2c_off > 0 {
                    out.label("c01.loss-mid-frame");
                }
                self.transport_lost(out);
            }
        }
        self.check_quiescent(out);
    }
    fn key(&self) -> u128 {
        crate::util::fp128(&(self.c.snap(), self.s.snap(), &self.c2s, &self.s2c, (self.c2s_off, self.s2c_off), &self.msgs, (self.ops_c, self.ops_s, self.losses, self.partials, self.timer_fires), (self.c_st, self.s_st, self.server_has_session), (self.c_armed, self.s_armed), (&self.c_alias, &self.s_alias), &self.owed))
    }
    fn is_delivery(a: &Act) -> bool {
        matches!(a, Act::Deliver(_) | Act::DeliverPartial(_, _))
    }
    fn sig_label(&self, a: &Act) -> String {
        match a {
            Act::COp(_) => "COp".into(),
            Act::SOp(_) => "SOp".into(),
            Act::Deliver(d) => format!("Deliver({})", if *d { "c->s" } else { "s->c" }),
            Act::DeliverPartial(d, _) => format!("DeliverPartial({})", if *d { "c->s" } else { "s->c" }),
            Act::Timer(c, k) => format!("Timer({},{k:?})", if *c { "client" } else { "server" }),
            Act::Lose => "Lose".into(),
            Act::Owed(c, _) => format!("Owed({})", if *c { "client" } else { "server" }),
        }
    }
}

/// cycle detection in the delivery-only sub-graph (iterative DFS with colours)
fn has_cycle(n: usize, edges: &[(u32, u32)]) -> bool {
    let mut adj: Vec<Vec<u32>> = vec![vec![]; n];
    for (a, b) in edges {
        if (*a as usize) < n && (*b as usize) < n {
            adj[*a as usize].push(*b);
        }
    }
    let mut color = vec![0u8; n];
    for s in 0..n {
        if color[s] != 0 {
            continue;
        }
        let mut stack: Vec<(usize, usize)> = vec![(s, 0)];
        color[s] = 1;
        while let Some((v, i)) = stack.pop() {
            if i < adj[v].len() {
                stack.push((v, i + 1));
                let w = adj[v][i] as usize;
                if color[w] == 1 {
                    return true;
                }
                if color[w] == 0 {
                    color[w] = 1;
                    stack.push((w, 0));
                }
            } else {
                color[v] = 2;
            }
        }
    }
    false
}

pub fn configs(thorough: bool) -> Vec<PairCfg> {
    let mut v = vec![];
    let base = |ver: Ver, name: &str| PairCfg {
        name: format!("c01 {} {}", ver_name(Some(ver)), name),
        ver,
        auto_c: true,
        auto_s: true,
        auto_ping: true,
        rm_c: None,
        rm_s: None,
        tam: 0,
        alias_mode: 0,
        mps: None,
        ka: 0,
        ops_total: if thorough { 3 } else { 2 },
        ops_per_side: if thorough { 3 } else { 2 },
        partials: 1,
        losses: if thorough { 2 } else { 1 },
        timer_fires: 0,
        sub_ops: false,
        defer_pubrel: false,
        topic_off: 0,
        use_extra: 0,
        refuse_code: None,
        pub_pad: 0,
        only_q: None,
    };
    for ver in [Ver::V4, Ver::V5] {
        v.push(base(ver, "auto/auto"));
        v.push(PairCfg { auto_c: false, auto_s: false, ..base(ver, "manual/manual") });
        // manual responses where the PUBREL may be sent later, also on the other side of a loss
        v.push(PairCfg { auto_c: false, auto_s: true, defer_pubrel: true, losses: 1, ..base(ver, "manual(deferred PUBREL)/auto") });
        v.push(PairCfg { auto_c: true, auto_s: false, sub_ops: true, ..base(ver, "auto/manual +sub/unsub/ping") });
        v.push(PairCfg { ka: 1, timer_fires: 1, auto_ping: thorough, losses: 1, ..base(ver, "keep-alive 1") });
        if thorough {
            v.push(PairCfg { auto_c: false, auto_s: true, ..base(ver, "manual/auto") });
        }
    }
    // v5 limits, identical on every resume
    for (rm_c, rm_s) in [(Some(1), Some(1)), (Some(2), None), (None, Some(2))] {
        if !thorough && rm_c != Some(1) {
            continue;
        }
        v.push(PairCfg { rm_c, rm_s, ..base(Ver::V5, &format!("rm client={rm_c:?} server={rm_s:?}")) });
    }
    for mode in [0u8, 1, 2] {
        if !thorough && mode == 2 {
            continue;
        }
        v.push(PairCfg { tam: 2, alias_mode: mode, losses: 1, ..base(Ver::V5, &format!("tam=2 alias-mode={mode}")) });
    }
    // Maximum Packet Size = exactly the largest workload packet (PUBLISH QoS>0, topic 'bb', 2-byte payload: 1+1+4+2+1+2)
    v.push(PairCfg { mps: Some(11), ..base(Ver::V5, "mps=11 (largest workload packet)") });
    // property blocks around the one-byte / two-byte Property Length boundary: the copy kept for retransmission
    // (alias property removed) and the packet auto-map rewrites (alias property added) cross it - what goes out
    // after a loss must still be a frame the other side reads as the same message
    for (mode, pad) in [(0u8, 120usize), (1, 120)] {
        if !thorough && mode == 1 {
            continue;
        }
        v.push(PairCfg { tam: 1, alias_mode: mode, losses: 1, pub_pad: pad, partials: 0, ..base(Ver::V5, &format!("tam=1 alias-mode={mode} padded properties ({pad})")) });
    }
    // four exchanges in flight at once (QoS 1 from the client, no loss): identifiers 1..4 complete in every order
    // the two delivery directions allow; at quiescence every one of them is free again
    for ver in [Ver::V4, Ver::V5] {
        if !thorough && ver == Ver::V5 {
            continue;
        }
        v.push(PairCfg { ops_total: 4, ops_per_side: 4, partials: 0, losses: 0, only_q: Some(1), ..base(ver, "four QoS 1 exchanges in flight") });
    }
    // a receiving application that refuses every message (failure PUBACK / PUBREC), Receive Maximum 1 both ways:
    // the refused exchange is over - after a loss and resume, too, nothing of it may still count
    v.push(PairCfg { auto_c: false, auto_s: false, rm_c: Some(1), rm_s: Some(1), refuse_code: Some(0x87), losses: 1, ..base(Ver::V5, "manual/manual, receiver refuses (0x87), rm=1/1") });
    // manual aliases on a long topic with a size limit that admits the registering PUBLISH (20 bytes) and the
    // alias-only PUBLISH with its longer payload (15 bytes), but not the latter's store copy with the full
    // topic (22 bytes): what the library accepts it must also be able to retransmit after a loss
    v.push(PairCfg { mps: Some(20), tam: 1, alias_mode: 0, losses: 1, topic_off: 1, use_extra: 3, ..base(Ver::V5, "mps=20 tam=1 manual aliases, long topic, longer alias-only payload") });
    if thorough {
        // all limits at once: the size limit must also admit the CONNACK that announces them (16 bytes)
        v.push(PairCfg { mps: Some(16), tam: 2, alias_mode: 1, rm_c: Some(1), rm_s: Some(1), losses: 1, ..base(Ver::V5, "mps=16 tam=2 auto-map rm=1/1") });
        // four operations, no partial delivery, one loss
        for ver in [Ver::V4, Ver::V5] {
            v.push(PairCfg { ops_total: 4, ops_per_side: 3, partials: 0, losses: 1, ..base(ver, "auto/auto 4 ops") });
        }
    }
    v
}

pub fn run(rep: &mut Report) {
    let thorough = rep.thorough();
    let cfgs = configs(thorough);
    let n = cfgs.len() as f64;
    for cfg in cfgs {
        let name = cfg.name.clone();
        let w = Pair::<u16>::new(Arc::new(cfg));
        let mut lim = if thorough { Limits::new(400, 3_000_000, (1800.0 / n).max(45.0)) } else { Limits::new(400, 400_000, 8.0) };
        lim.rss_mb = 20_000;
        let mut ex = Explorer::new(&name, lim, rep);
        ex.record_delivery_edges = true;
        let st = ex.run(w);
        let edges = std::mem::take(&mut ex.delivery_edges);
        drop(ex);
        rep.count("c01.delivery-edges", edges.len() as u64);
        if has_cycle(st.states as usize + 1, &edges) {
            rep.violation(Violation { rule: "c01.response-loop".into(), sig: "c01.response-loop".into(), detail: format!("[{name}] the delivery-only sub-graph has a cycle: an exchange that never runs dry without new workload, loss or timer expiry"), config: name.clone(), history: vec![json!("cycle among delivery transitions (see evidence)")] });
        }
        if !st.closed {
            rep.count("c01.bounded-configs", 1);
        }
    }
    for f in ["c01.quiescent", "c01.publish-notified", "c01.transport-lost", "c01.loss-mid-frame", "c01.partial-delivery", "c01.q2-exactly-once", "c01.q2-exactly-once-across-loss", "c01.q1-delivered", "c01.q0-at-most-once", "c01.local-refusal", "c01.timer-fired"] {
        rep.floor(f, 1);
    }
    rep.assume("both endpoints are driven only through the application contract; sessions are persistent on both sides and the negotiated limits are identical on every resume; a loss discards everything in flight in both directions; a keep-alive timeout (counted deviation) is handled as a transport loss");
}

pub fn replay(config: &str, labels: &[String]) -> Result<Vec<String>, String> {
    let Some(cfg) = configs(true).into_iter().chain(configs(false)).find(|c| c.name == config) else { return Err(format!("unknown configuration {config}")) };
    crate::explore::replay(Pair::<u16>::new(Arc::new(cfg)), labels)
}
