//! C11 — send gating: role x version x connection-state matrix (exhaustive), refusals leave no
//! trace, compile-time `Sendable` agrees with the run-time role check.
use crate::bridge::{self, Pid};
use crate::conn::{ConnBox, Ev, RoleK};
use crate::ep::{AckProf, ConnProf};
use crate::refcodec::{self as rc, AckKind, Ver, AP};
use crate::report::{Report, Violation};
use crate::util::guarded;
use mqtt_protocol_core::mqtt;
use mqtt_protocol_core::mqtt::connection::Sendable;
use mqtt_protocol_core::mqtt::packet::{v3_1_1, v5_0};
use mqtt_protocol_core::mqtt::role;
use serde_json::json;
use std::marker::PhantomData;

#[derive(Clone, Copy, Debug, PartialEq, Eq)]
pub enum St {
    Disc,
    Connecting,
    Connected,
}
#[derive(Clone, Copy, Debug, PartialEq, Eq)]
pub enum Exp {
    Transmit,
    Queue,
    Refuse,
}

/// the 29 packet kinds as minimal valid abstract packets (ids filled in later)
pub fn kinds() -> Vec<(&'static str, AP)> {
    let mut v = vec![];
    for ver in [Ver::V4, Ver::V5] {
        let n = |s: &str| -> &'static str { Box::leak(format!("v{} {}", ver.level(), s).into_boxed_str()) };
        // CONNECT / CONNACK carry every property that the connection acts upon, with values that differ
        // from what the cells negotiated: a refused one must not apply any of them
        v.push((n("CONNECT"), ConnProf { clean: true, ka: 3, sei: Some(50), rm: Some(3), tam: Some(3), mps: Some(100) }.ap(ver)));
        v.push((n("CONNACK"), AckProf { rm: Some(3), tam: Some(3), mps: Some(100), ska: Some(4), sei: Some(0), ..AckProf::basic(false) }.ap(ver)));
        v.push((n("PUBLISH q0"), AP::Publish { ver, dup: false, qos: 0, retain: false, topic: b"a".to_vec(), pid: None, props: vec![], payload: b"p".to_vec() }));
        v.push((n("PUBLISH q1"), AP::Publish { ver, dup: false, qos: 1, retain: false, topic: b"a".to_vec(), pid: Some(0), props: vec![], payload: b"p".to_vec() }));
        v.push((n("PUBLISH q2"), AP::Publish { ver, dup: false, qos: 2, retain: false, topic: b"a".to_vec(), pid: Some(0), props: vec![], payload: b"p".to_vec() }));
        for k in [AckKind::Puback, AckKind::Pubrec, AckKind::Pubrel, AckKind::Pubcomp] {
            v.push((n(k.name()), AP::Ack { ver, kind: k, pid: 1, code: None, props: None }));
        }
        v.push((n("SUBSCRIBE"), AP::Subscribe { ver, pid: 0, props: vec![], entries: vec![(b"f".to_vec(), 0)] }));
        v.push((n("SUBACK"), AP::Suback { ver, pid: 1, props: vec![], codes: vec![0] }));
        v.push((n("UNSUBSCRIBE"), AP::Unsubscribe { ver, pid: 0, props: vec![], filters: vec![b"f".to_vec()] }));
        v.push((n("UNSUBACK"), AP::Unsuback { ver, pid: 1, props: vec![], codes: if ver == Ver::V5 { vec![0] } else { vec![] } }));
        v.push((n("PINGREQ"), AP::Pingreq { ver }));
        v.push((n("PINGRESP"), AP::Pingresp { ver }));
        v.push((n("DISCONNECT"), AP::Disconnect { ver, code: None, props: None }));
        if ver == Ver::V5 {
            v.push((n("AUTH"), AP::Auth { code: None, props: None }));
        }
    }
    v
}

/// the 29 kinds plus acknowledgement variants (error reason codes, ids 1 and 2) for the fan-out from
/// every reachable session state
pub fn probe_kinds() -> Vec<(&'static str, AP)> {
    let mut v = kinds();
    let ver = Ver::V5;
    for id in [1u32, 2] {
        for (k, code, name) in [(AckKind::Pubrec, 0x80u8, "v5 PUBREC(err)"), (AckKind::Puback, 0x80, "v5 PUBACK(err)"), (AckKind::Pubcomp, 0x92, "v5 PUBCOMP(0x92)"), (AckKind::Pubrec, 0x10, "v5 PUBREC(0x10)")] {
            v.push((Box::leak(format!("{name} id{id}").into_boxed_str()), AP::Ack { ver, kind: k, pid: id, code: Some(code), props: None }));
        }
        for k in [AckKind::Puback, AckKind::Pubrec, AckKind::Pubrel, AckKind::Pubcomp] {
            for ver in [Ver::V4, Ver::V5] {
                if id == 2 {
                    v.push((Box::leak(format!("v{} {} id2", ver.level(), k.name()).into_boxed_str()), AP::Ack { ver, kind: k, pid: 2, code: None, props: None }));
                }
            }
        }
    }
    v
}

pub fn owns_fresh_id(ap: &AP) -> bool {
    matches!(ap, AP::Publish { qos, .. } if *qos > 0) || matches!(ap, AP::Subscribe { .. } | AP::Unsubscribe { .. })
}

pub fn with_id(ap: &AP, id: u32) -> AP {
    let mut a = ap.clone();
    match &mut a {
        AP::Publish { pid, qos, .. } if *qos > 0 => *pid = Some(id),
        AP::Subscribe { pid, .. } | AP::Unsubscribe { pid, .. } => *pid = id,
        _ => {}
    }
    a
}

/// The MQTT rule table of the statement.
pub fn expect(role: RoleK, conn_ver: Option<Ver>, st: St, need_store: bool, offline: bool, ap: &AP) -> Exp {
    let Some(cv) = conn_ver else { return Exp::Refuse };
    if cv != ap.ver() {
        return Exp::Refuse;
    }
    let ty = ap.type_nibble();
    let role_ok = match role {
        RoleK::Client => rc::client_may_send(ty, cv),
        RoleK::Server => rc::server_may_send(ty, cv),
        RoleK::Any => rc::client_may_send(ty, cv) || rc::server_may_send(ty, cv),
    };
    if !role_ok {
        return Exp::Refuse;
    }
    let t = |b: bool| if b { Exp::Transmit } else { Exp::Refuse };
    match ap {
        AP::Connect { .. } => t(st == St::Disc),
        AP::Connack { .. } => t(st == St::Connecting),
        AP::Auth { .. } => t(st != St::Disc),
        AP::Publish { qos, .. } if *qos > 0 => {
            if st == St::Connected {
                Exp::Transmit
            } else if need_store && (st != St::Disc || offline) {
                Exp::Queue
            } else {
                Exp::Refuse
            }
        }
        AP::Ack { kind: AckKind::Pubrel, .. } => {
            if st == St::Connected {
                Exp::Transmit
            } else if need_store {
                Exp::Queue
            } else {
                Exp::Refuse
            }
        }
        _ => t(st == St::Connected),
    }
}

struct Cell {
    role: RoleK,
    as_client: bool,
    ver: Option<Ver>,
    st: St,
    persistent: bool,
    offline: bool,
    /// Disc reached after a previous connection (vs a fresh object)
    reused: bool,
    /// Disc reached by sending DISCONNECT on an established connection whose transport has not been reported
    /// closed yet; that connection did not ask for persistence itself but resumed a persistent session (v5.0:
    /// Clean Start 0 without Session Expiry Interval). Only the refusals are judged in this cell.
    ended: bool,
}
impl Cell {
    fn name(&self) -> String {
        format!("{:?}{} {} {:?}{}{} persistent={} offline={}", self.role, if self.role == RoleK::Any { if self.as_client { "(as client)" } else { "(as server)" } } else { "" }, super::epc::ver_name(self.ver), self.st, if self.reused { "(after a connection)" } else { "" }, if self.ended { "(DISCONNECT sent on a connection that resumed a persistent session without asking for expiry; transport not yet reported closed)" } else { "" }, self.persistent, self.offline)
    }
    /// reach the cell with real calls; returns the object and the history description
    fn reach<P: Pid>(&self) -> (ConnBox<P>, Vec<String>) {
        let mut c = ConnBox::<P>::new(self.role, self.ver);
        let mut h = vec![];
        if self.offline {
            c.set_offline_publish(true);
            h.push("set_offline_publish(true)".to_string());
        }
        let Some(ver) = self.ver else { return (c, h) };
        let cp = ConnProf::basic(!self.persistent);
        let handshake = |c: &mut ConnBox<P>, h: &mut Vec<String>, upto: St| {
            if self.as_client {
                let _ = c.send(bridge::build::<P>(&cp.ap(ver)).ok().unwrap());
                h.push(format!("send CONNECT({})", cp.label()));
                if upto == St::Connected {
                    let _ = c.recv_all(&rc::encode(&AckProf::basic(false).ap(ver), P::W));
                    h.push("recv CONNACK".into());
                }
            } else {
                let _ = c.recv_all(&rc::encode(&cp.ap(ver), P::W));
                h.push(format!("recv CONNECT({})", cp.label()));
                if upto == St::Connected {
                    let _ = c.send(bridge::build::<P>(&AckProf::basic(false).ap(ver)).ok().unwrap());
                    h.push("send CONNACK".into());
                }
            }
        };
        if self.ended {
            // a persistent connection first, closed; then the resuming one; then DISCONNECT
            let pp = ConnProf::basic(false);
            let rp = ConnProf::resume_no_expiry();
            for (prof, sp) in [(&pp, false), (&rp, true)] {
                if self.as_client {
                    let _ = c.send(bridge::build::<P>(&prof.ap(ver)).ok().unwrap());
                    let _ = c.recv_all(&rc::encode(&AckProf::basic(sp).ap(ver), P::W));
                } else {
                    let _ = c.recv_all(&rc::encode(&prof.ap(ver), P::W));
                    let _ = c.send(bridge::build::<P>(&AckProf::basic(sp).ap(ver)).ok().unwrap());
                }
                h.push(format!("CONNECT({}) / CONNACK(sp={sp})", prof.label()));
                if !sp {
                    let _ = c.notify_closed();
                    h.push("notify_closed()".into());
                }
            }
            let d = AP::Disconnect { ver, code: None, props: None };
            // (v5.0: either side may send it; a received DISCONNECT leaves the status alone until the close)
            let _ = c.send(bridge::build::<P>(&d).ok().unwrap());
            h.push("send DISCONNECT".into());
            return (c, h);
        }
        match self.st {
            St::Disc => {
                if self.reused {
                    handshake(&mut c, &mut h, St::Connected);
                    let _ = c.notify_closed();
                    h.push("notify_closed()".into());
                }
            }
            St::Connecting => handshake(&mut c, &mut h, St::Connecting),
            St::Connected => handshake(&mut c, &mut h, St::Connected),
        }
        (c, h)
    }
    fn need_store(&self) -> bool {
        match self.st {
            // an object with offline publishing keeps packets while disconnected, before its first
            // connection and after any other; a persistent session keeps storing after its connection
            St::Disc => {
                if self.reused {
                    self.persistent || self.offline
                } else {
                    self.offline
                }
            }
            _ => self.persistent,
        }
    }
}

fn cells() -> Vec<Cell> {
    let mut v = vec![];
    for (role, as_client) in [(RoleK::Client, true), (RoleK::Server, false), (RoleK::Any, true), (RoleK::Any, false)] {
        for ver in [Some(Ver::V4), Some(Ver::V5), None] {
            if ver.is_none() && role == RoleK::Client {
                // an undetermined client cannot be driven anywhere; still one cell: everything refused
            }
            if ver == Some(Ver::V5) {
                v.push(Cell { role, as_client, ver, st: St::Disc, persistent: false, offline: false, reused: false, ended: true });
            }
            for st in [St::Disc, St::Connecting, St::Connected] {
                if ver.is_none() && st != St::Disc {
                    continue; // unreachable: a version is adopted by the CONNECT that leaves Disc
                }
                for persistent in [false, true] {
                    for offline in [false, true] {
                        for reused in [false, true] {
                            if reused && (st != St::Disc || ver.is_none()) {
                                continue;
                            }
                            if !reused && st == St::Disc && persistent {
                                continue; // a fresh object has no session yet
                            }
                            v.push(Cell { role, as_client, ver, st, persistent, offline, reused, ended: false });
                        }
                    }
                }
            }
        }
    }
    v
}

fn check_cell<P: Pid>(cell: &Cell, kname: &str, ap0: &AP, rep_v: &mut Vec<Violation>, counts: &mut [u64; 3]) {
    let (mut c, mut hist) = cell.reach::<P>();
    let s0 = c.snap();
    // packet identifiers: fresh for packets that start an exchange, registered for PUBREL
    let mut ap = ap0.clone();
    let mut fresh: Option<u32> = None;
    if owns_fresh_id(ap0) {
        let id = c.acquire().expect("acquire");
        fresh = Some(id);
        ap = with_id(ap0, id);
        hist.push(format!("acquire_packet_id() = {id}"));
    } else if matches!(ap0, AP::Ack { kind: AckKind::Pubrel, .. }) {
        let _ = c.register(1);
        hist.push("register_packet_id(1)".into());
    }
    let s1 = c.snap();
    let exp = expect(cell.role, cell.ver, cell.st, cell.need_store(), cell.offline, &ap);
    if cell.ended && exp != Exp::Refuse {
        return;
    }
    let pkt = bridge::build::<P>(&ap).ok().expect("build");
    // compile-time-checked entry point: same events and same state as send(), wherever it exists
    let mut checked: Option<(Vec<Ev>, mqtt::connection::core::verif_hooks::VerifState)> = None;
    if P::W == 2 {
        let any: &dyn std::any::Any = &c;
        if let Some(c16) = any.downcast_ref::<ConnBox<u16>>() {
            let mut c2 = c16.clone();
            if let Some(p16) = bridge::build::<u16>(&ap).ok() {
                if let Some(e) = checked_send_dyn(&mut c2, p16) {
                    checked = Some((e, c2.snap()));
                }
            }
        }
    }
    let evs = c.send(pkt);
    let s2 = c.snap();
    if let Some((ce, cs)) = &checked {
        counts[0] += 0;
        if ce != &evs || cs != &s2 {
            rep_v.push(Violation {
                rule: "c11.checked-send-differs".into(),
                sig: format!("c11.checked-send-differs|{kname}|{:?}|{}|{:?}", cell.role, super::epc::ver_name(cell.ver), cell.st),
                detail: format!("cell [{}] packet {kname}: checked_send returns {:?} but send returns {:?}{}", cell.name(), ce.iter().map(|e| e.short()).collect::<Vec<_>>(), evs.iter().map(|e| e.short()).collect::<Vec<_>>(), if cs != &s2 { format!("; states differ: {}", diff_snap(cs, &s2)) } else { String::new() }),
                config: format!("c11 cell {}", cell.name()),
                history: hist.iter().map(|h| json!(h)).collect(),
            });
        }
    }
    hist.push(format!("send({}) -> [{}]", crate::conn::ap_short(&ap), evs.iter().map(|e| e.short()).collect::<Vec<_>>().join(", ")));
    let sent = evs.iter().any(|e| matches!(e, Ev::Send { ap: a, .. } if a.type_nibble() == ap.type_nibble() && a.pid() == ap.pid()));
    let errs = evs.iter().filter(|e| matches!(e, Ev::Error(_))).count();
    let mut bad: Option<(String, String)> = None;
    let sigbase = format!("{kname}|{:?}|{}|{:?}{}", cell.role, super::epc::ver_name(cell.ver), cell.st, if cell.reused { "+" } else { "" });
    match exp {
        Exp::Transmit => {
            counts[0] += 1;
            if !sent || errs > 0 {
                bad = Some(("c11.not-transmitted".into(), format!("MQTT allows this send (expected: transmitted) but the result is {:?}", evs.iter().map(|e| e.short()).collect::<Vec<_>>())));
            }
        }
        Exp::Queue => {
            counts[1] += 1;
            let stored = s2.store.len() == s1.store.len() + 1;
            if sent || errs > 0 || !stored {
                bad = Some(("c11.not-queued".into(), format!("an offline/persistent QoS>0 PUBLISH or PUBREL must be accepted and stored (no error, no transmission): events {:?}, stored {} -> {}", evs.iter().map(|e| e.short()).collect::<Vec<_>>(), s1.store.len(), s2.store.len())));
            }
        }
        Exp::Refuse => {
            counts[2] += 1;
            let mut want: Vec<String> = vec!["NotifyError".into()];
            if let Some(id) = fresh {
                want.push(format!("NotifyPacketIdReleased({id})"));
            }
            let shape_ok = errs == 1 && !sent && evs.len() == want.len() && fresh.map(|id| evs.iter().any(|e| matches!(e, Ev::Released(x) if *x == id))).unwrap_or(true);
            if !shape_ok {
                bad = Some(("c11.refusal-events".into(), format!("refused send must return exactly one error event{}: got {:?}", if fresh.is_some() { " plus the release of the packet's identifier" } else { "" }, evs.iter().map(|e| e.short()).collect::<Vec<_>>())));
            } else {
                let base = if fresh.is_some() { &s0 } else { &s1 };
                if &s2 != base {
                    bad = Some(("c11.refusal-left-state".into(), format!("after the refused send the connection differs from its state before the call: {}", diff_snap(base, &s2))));
                }
            }
        }
    }
    if let Some((rule, detail)) = bad {
        rep_v.push(Violation {
            rule: rule.clone(),
            sig: format!("{rule}|{sigbase}"),
            detail: format!("cell [{}] packet {kname}: {detail}", cell.name()),
            config: format!("c11 cell {}", cell.name()),
            history: hist.iter().map(|h| json!(h)).collect(),
        });
    }
}

fn diff_snap(a: &mqtt::connection::core::verif_hooks::VerifState, b: &mqtt::connection::core::verif_hooks::VerifState) -> String {
    let sa = format!("{a:?}");
    let sb = format!("{b:?}");
    // field-wise diff on the Debug rendering
    let fa: Vec<&str> = sa.split(", ").collect();
    let fb: Vec<&str> = sb.split(", ").collect();
    let mut out = vec![];
    for (x, y) in fa.iter().zip(fb.iter()) {
        if x != y {
            out.push(format!("{x} -> {y}"));
        }
    }
    if out.is_empty() {
        "(different lengths)".into()
    } else {
        out.join("; ")
    }
}

// ---- compile-time clause: inherent-const-over-trait-const probe
struct Probe<T, R>(PhantomData<(T, R)>);
trait NotSendable {
    const IS: bool = false;
}
impl<T, R> NotSendable for Probe<T, R> {}
impl<T: Sendable<R, u16>, R: role::RoleType> Probe<T, R> {
    #[allow(dead_code)]
    const IS: bool = true;
}

trait NoCall<R: role::RoleType, T> {
    fn call(_c: &mut mqtt::GenericConnection<R, u16>, _t: T) -> Option<Vec<mqtt::connection::GenericEvent<u16>>> {
        None
    }
}
impl<T, R: role::RoleType> NoCall<R, T> for Probe<T, R> {}
impl<T: Sendable<R, u16>, R: role::RoleType> Probe<T, R> {
    #[allow(dead_code)]
    fn call(c: &mut mqtt::GenericConnection<R, u16>, t: T) -> Option<Vec<mqtt::connection::GenericEvent<u16>>> {
        Some(c.checked_send(t))
    }
}

/// `checked_send` with the concrete packet type, where the type is `Sendable` for the role
pub fn checked_send_dyn(c: &mut ConnBox<u16>, p: mqtt::packet::GenericPacket<u16>) -> Option<Vec<Ev>> {
    use mqtt::packet::GenericPacket as G;
    macro_rules! arms {
        ($conn:expr, $R:ty) => {
            match p {
                G::V3_1_1Connect(x) => <Probe<v3_1_1::Connect, $R>>::call($conn, x),
                G::V3_1_1Connack(x) => <Probe<v3_1_1::Connack, $R>>::call($conn, x),
                G::V3_1_1Subscribe(x) => <Probe<v3_1_1::Subscribe, $R>>::call($conn, x),
                G::V3_1_1Suback(x) => <Probe<v3_1_1::Suback, $R>>::call($conn, x),
                G::V3_1_1Unsubscribe(x) => <Probe<v3_1_1::Unsubscribe, $R>>::call($conn, x),
                G::V3_1_1Unsuback(x) => <Probe<v3_1_1::Unsuback, $R>>::call($conn, x),
                G::V3_1_1Publish(x) => <Probe<v3_1_1::Publish, $R>>::call($conn, x),
                G::V3_1_1Puback(x) => <Probe<v3_1_1::Puback, $R>>::call($conn, x),
                G::V3_1_1Pubrec(x) => <Probe<v3_1_1::Pubrec, $R>>::call($conn, x),
                G::V3_1_1Pubrel(x) => <Probe<v3_1_1::Pubrel, $R>>::call($conn, x),
                G::V3_1_1Pubcomp(x) => <Probe<v3_1_1::Pubcomp, $R>>::call($conn, x),
                G::V3_1_1Disconnect(x) => <Probe<v3_1_1::Disconnect, $R>>::call($conn, x),
                G::V3_1_1Pingreq(x) => <Probe<v3_1_1::Pingreq, $R>>::call($conn, x),
                G::V3_1_1Pingresp(x) => <Probe<v3_1_1::Pingresp, $R>>::call($conn, x),
                G::V5_0Connect(x) => <Probe<v5_0::Connect, $R>>::call($conn, x),
                G::V5_0Connack(x) => <Probe<v5_0::Connack, $R>>::call($conn, x),
                G::V5_0Subscribe(x) => <Probe<v5_0::Subscribe, $R>>::call($conn, x),
                G::V5_0Suback(x) => <Probe<v5_0::Suback, $R>>::call($conn, x),
                G::V5_0Unsubscribe(x) => <Probe<v5_0::Unsubscribe, $R>>::call($conn, x),
                G::V5_0Unsuback(x) => <Probe<v5_0::Unsuback, $R>>::call($conn, x),
                G::V5_0Publish(x) => <Probe<v5_0::Publish, $R>>::call($conn, x),
                G::V5_0Puback(x) => <Probe<v5_0::Puback, $R>>::call($conn, x),
                G::V5_0Pubrec(x) => <Probe<v5_0::Pubrec, $R>>::call($conn, x),
                G::V5_0Pubrel(x) => <Probe<v5_0::Pubrel, $R>>::call($conn, x),
                G::V5_0Pubcomp(x) => <Probe<v5_0::Pubcomp, $R>>::call($conn, x),
                G::V5_0Disconnect(x) => <Probe<v5_0::Disconnect, $R>>::call($conn, x),
                G::V5_0Pingreq(x) => <Probe<v5_0::Pingreq, $R>>::call($conn, x),
                G::V5_0Pingresp(x) => <Probe<v5_0::Pingresp, $R>>::call($conn, x),
                G::V5_0Auth(x) => <Probe<v5_0::Auth, $R>>::call($conn, x),
            }
        };
    }
    let r = match c {
        ConnBox::C(conn) => arms!(conn, role::Client),
        ConnBox::S(conn) => arms!(conn, role::Server),
        ConnBox::A(conn) => arms!(conn, role::Any),
    };
    r.map(crate::conn::canon)
}

macro_rules! probe_row {
    ($name:expr, $t:ty) => {
        ($name, [<Probe<$t, role::Client>>::IS, <Probe<$t, role::Server>>::IS, <Probe<$t, role::Any>>::IS])
    };
}

fn compile_time_table() -> Vec<(&'static str, [bool; 3])> {
    vec![
        probe_row!("v4 CONNECT", v3_1_1::Connect),
        probe_row!("v4 CONNACK", v3_1_1::Connack),
        probe_row!("v4 PUBLISH q0", v3_1_1::Publish),
        probe_row!("v4 PUBACK", v3_1_1::Puback),
        probe_row!("v4 PUBREC", v3_1_1::Pubrec),
        probe_row!("v4 PUBREL", v3_1_1::Pubrel),
        probe_row!("v4 PUBCOMP", v3_1_1::Pubcomp),
        probe_row!("v4 SUBSCRIBE", v3_1_1::Subscribe),
        probe_row!("v4 SUBACK", v3_1_1::Suback),
        probe_row!("v4 UNSUBSCRIBE", v3_1_1::Unsubscribe),
        probe_row!("v4 UNSUBACK", v3_1_1::Unsuback),
        probe_row!("v4 PINGREQ", v3_1_1::Pingreq),
        probe_row!("v4 PINGRESP", v3_1_1::Pingresp),
        probe_row!("v4 DISCONNECT", v3_1_1::Disconnect),
        probe_row!("v5 CONNECT", v5_0::Connect),
        probe_row!("v5 CONNACK", v5_0::Connack),
        probe_row!("v5 PUBLISH q0", v5_0::Publish),
        probe_row!("v5 PUBACK", v5_0::Puback),
        probe_row!("v5 PUBREC", v5_0::Pubrec),
        probe_row!("v5 PUBREL", v5_0::Pubrel),
        probe_row!("v5 PUBCOMP", v5_0::Pubcomp),
        probe_row!("v5 SUBSCRIBE", v5_0::Subscribe),
        probe_row!("v5 SUBACK", v5_0::Suback),
        probe_row!("v5 UNSUBSCRIBE", v5_0::Unsubscribe),
        probe_row!("v5 UNSUBACK", v5_0::Unsuback),
        probe_row!("v5 PINGREQ", v5_0::Pingreq),
        probe_row!("v5 PINGRESP", v5_0::Pingresp),
        probe_row!("v5 DISCONNECT", v5_0::Disconnect),
        probe_row!("v5 AUTH", v5_0::Auth),
    ]
}

/// run-time role acceptance: in the most permissive status for the kind, is the send refused?
fn runtime_role_ok(role: RoleK, ap: &AP) -> bool {
    let ver = ap.ver();
    let as_client = role != RoleK::Server;
    let st = match ap {
        AP::Connect { .. } => St::Disc,
        AP::Connack { .. } => St::Connecting,
        _ => St::Connected,
    };
    let cell = Cell { role, as_client, ver: Some(ver), st, persistent: false, offline: false, reused: false, ended: false };
    let (mut c, _) = cell.reach::<u16>();
    let mut a = ap.clone();
    if owns_fresh_id(ap) {
        let id = c.acquire().unwrap();
        a = with_id(ap, id);
    } else if matches!(ap, AP::Ack { kind: AckKind::Pubrel, .. }) {
        let _ = c.register(1);
    }
    let evs = c.send(bridge::build::<u16>(&a).ok().unwrap());
    !evs.iter().any(|e| matches!(e, Ev::Error(_)))
}

pub fn run(rep: &mut Report) {
    let thorough = rep.thorough();
    let ks = kinds();
    let cs = cells();
    let mut counts = [0u64; 3];
    let mut n = 0u64;
    let mut viols = vec![];
    for cell in &cs {
        for (kname, ap) in &ks {
            n += 1;
            let r = guarded(|| {
                let mut v = vec![];
                let mut cnt = [0u64; 3];
                check_cell::<u16>(cell, kname, ap, &mut v, &mut cnt);
                (v, cnt)
            });
            match r {
                Ok((v, cnt)) => {
                    viols.extend(v);
                    for i in 0..3 {
                        counts[i] += cnt[i];
                    }
                }
                Err(m) => viols.push(Violation {
                    rule: "c11.panic".into(),
                    sig: format!("c11.panic|{}|{kname}", crate::util::panic_sig(&m)),
                    detail: format!("cell [{}] packet {kname}: panic {m}", cell.name()),
                    config: format!("c11 cell {}", cell.name()),
                    history: vec![json!(kname)],
                }),
            }
            if thorough {
                n += 1;
                if let Ok((v, _)) = guarded(|| {
                    let mut v = vec![];
                    let mut cnt = [0u64; 3];
                    check_cell::<u32>(cell, kname, ap, &mut v, &mut cnt);
                    (v, cnt)
                }) {
                    for mut x in v {
                        x.sig = format!("{}|u32", x.sig);
                        viols.push(x);
                    }
                }
            }
        }
    }
    // compile-time clause
    let table = compile_time_table();
    let mut ct_checked = 0u64;
    for (name, row) in &table {
        let ap = &ks.iter().find(|k| k.0 == *name).expect("kind").1;
        for (i, role) in [RoleK::Client, RoleK::Server, RoleK::Any].iter().enumerate() {
            ct_checked += 1;
            let rt = runtime_role_ok(*role, ap);
            let spec = match role {
                RoleK::Client => rc::client_may_send(ap.type_nibble(), ap.ver()),
                RoleK::Server => rc::server_may_send(ap.type_nibble(), ap.ver()),
                RoleK::Any => true,
            };
            if row[i] != rt || rt != spec {
                viols.push(Violation {
                    rule: "c11.compile-time".into(),
                    sig: format!("c11.compile-time|{name}|{role:?}"),
                    detail: format!("{name} for role {role:?}: `T: Sendable<Role,u16>` is {}, run-time send() {} it, MQTT {} it", row[i], if rt { "accepts" } else { "refuses" }, if spec { "allows" } else { "forbids" }),
                    config: "c11 compile-time table".into(),
                    history: vec![json!(name)],
                });
            }
        }
    }
    for v in viols {
        rep.violation(v);
    }
    // fan-out from every reachable session state: refusals must leave no trace whatever the state holds
    {
        use super::epc::*;
        use crate::ep::*;
        use crate::explore::Limits;
        for role in [RoleK::Client, RoleK::Server, RoleK::Any] {
            for ver in [Ver::V4, Ver::V5] {
                for auto in [true, false] {
                    if !thorough && role == RoleK::Any && !auto {
                        continue;
                    }
                    let mut c = EpCfg::new(&cfg_name("c11-fanout", role, Some(ver), &format!("auto={auto}")), role, Some(ver));
                    c.auto_pub = auto;
                    c.window = 2;
                    c.alph = session_alph(ver == Ver::V5, 2);
                    c.alph.peer_pub_q = vec![1, 2];
                    c.alph.peer_ids = vec![1, 2];
                    c.alph.peer_acks = vec![AckKind::Puback, AckKind::Pubrec, AckKind::Pubcomp, AckKind::Pubrel];
                    c.alph.sub = true;
                    c.alph.defer_pubrel = true;
                    c.alph.send_probes = true;
                    // set_offline_publish() called at any time, also with the value it already has
                    if !auto && (thorough || role == RoleK::Client) {
                        c.alph.toggle_opts = vec![1];
                    }
                    if !thorough {
                        c.alph.peer_ack_ids = vec![1];
                        c.alph.peer_ids = vec![1];
                        c.alph.pub_q = vec![1, 2];
                    }
                    c.groups = vec!["c11"];
                    run_cfg::<u16>(rep, c, if thorough { Limits::new(200, 400_000, 60.0) } else { Limits::new(200, 40_000, 4.0) }, false);
                }
            }
        }
        // refusals of a PUBLISH for v5.0 reasons (Receive Maximum reached, alias unknown / out of range,
        // too large) on persistent and non-persistent sessions with registered aliases: no trace either
        for role in [RoleK::Client, RoleK::Server] {
            if !thorough && role == RoleK::Server {
                continue;
            }
            let mut c = EpCfg::new(&cfg_name("c11-fanout", role, Some(Ver::V5), "alias+limits"), role, Some(Ver::V5));
            c.auto_pub = true;
            c.window = 2;
            c.alph = session_alph(true, 2);
            c.alph.pub_q = vec![0, 1, 2];
            c.alph.topics = 2;
            c.alph.als = vec![Al::No, Al::Reg(1), Al::Reg(2), Al::Reg(3), Al::Use(1), Al::Use(2)];
            c.alph.use_unbound = true;
            // (publishes in every status, also during an attempt that resumes the session without asking for it to
            // persist: accepted means transmitted or queued)
            c.alph.pub_any_status = true;
            c.connects = vec![ConnProf::basic(true), ConnProf { tam: Some(2), rm: Some(1), mps: Some(12), ..ConnProf::basic(false) }, ConnProf { tam: Some(2), rm: Some(1), ..ConnProf::basic(true) }, ConnProf::resume_no_expiry()];
            c.connacks = vec![AckProf::basic(false), AckProf { tam: Some(2), rm: Some(1), mps: Some(12), ..AckProf::basic(true) }, AckProf { tam: Some(2), rm: Some(1), ..AckProf::basic(false) }];
            c.groups = vec!["c11"];
            run_cfg::<u16>(rep, c, if thorough { Limits::new(200, 400_000, 60.0) } else { Limits::new(200, 40_000, 4.0) }, false);
        }
        // an alias-only PUBLISH whose store copy (full 10-byte topic) exceeds the peer's limit while the packet
        // itself (longer payload, no topic) does not: accepted or refused, a refusal leaves no trace
        {
            let role = RoleK::Client;
            let mut c = EpCfg::new(&cfg_name("c11-fanout", role, Some(Ver::V5), "alias + store copy over the size limit"), role, Some(Ver::V5));
            c.auto_pub = true;
            c.window = 2;
            c.use_extra = 3;
            c.alph = session_alph(true, 2);
            c.alph.pub_q = vec![0, 1];
            c.alph.topics = 1;
            c.alph.topic_base = 2;
            c.alph.als = vec![Al::No, Al::Reg(1), Al::Reg(2), Al::Use(1), Al::Use(2)];
            c.connects = vec![ConnProf { tam: Some(2), ..ConnProf::basic(false) }];
            c.connacks = vec![AckProf { tam: Some(2), mps: Some(19), ..AckProf::basic(true) }, AckProf { tam: Some(2), mps: Some(19), ..AckProf::basic(false) }];
            c.groups = vec!["c11"];
            run_cfg::<u16>(rep, c, if thorough { Limits::new(200, 400_000, 60.0) } else { Limits::new(200, 40_000, 4.0) }, false);
        }
        rep.floor("c11.refused-publish-checked", 50);
        rep.floor("c11.fanout-refusal-checked", 1000);
    }
    rep.count("c11.cells-transmit", counts[0]);
    rep.count("c11.cells-queue", counts[1]);
    rep.count("c11.cells-refuse", counts[2]);
    rep.count("c11.compile-time-questions", ct_checked);
    rep.floor("c11.cells-transmit", 50);
    rep.floor("c11.cells-queue", 10);
    rep.floor("c11.cells-refuse", 500);
    rep.floor("c11.compile-time-questions", 87);
    rep.add_cov("states", cs.len() as u64);
    rep.add_cov("transitions", n);
    rep.add_cov("traces_validated_against_impl", n);
    rep.set_cov("exhaustive", json!(true));
    rep.set_cov("rule", json!("every cell role{Client,Server,Any-as-client,Any-as-server} x version{3.1.1,5.0,undetermined} x status{disconnected (fresh / after a connection),connecting,connected} x persistent x offline, each reached by real calls, x 29 packet kinds; undetermined x non-disconnected is unreachable"));
    rep.sample(json!({"cells": cs.iter().take(4).map(|c| c.name()).collect::<Vec<_>>(), "kinds": ks.iter().map(|k| k.0).collect::<Vec<_>>()}));
    rep.assume("CONNACK is judged by the literal rule 'only while connecting' for every role that may send it; identifiers of PUBLISH QoS>0 / SUBSCRIBE / UNSUBSCRIBE are freshly acquired for the call, PUBREL uses a registered identifier");
}

pub fn replay(v: &serde_json::Value) -> Result<Vec<String>, String> {
    Ok(v["history"].as_array().map(|a| a.iter().map(|x| x.as_str().unwrap_or("").to_string()).collect()).unwrap_or_default())
}
