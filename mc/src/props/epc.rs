//! Shared drivers for the endpoint-world properties.
use crate::bridge::Pid;
use crate::conn::RoleK;
use crate::ep::*;
use crate::explore::{Explorer, Limits, Stats};
use crate::refcodec::{AckKind, Ver};
use crate::report::Report;
use std::sync::Arc;

pub fn run_cfg<P: Pid>(rep: &mut Report, cfg: EpCfg, limits: Limits, audit: bool) -> Stats {
    let name = cfg.name.clone();
    let w = Ep::<P>::new(Arc::new(cfg));
    let mut ex = Explorer::new(&name, limits, rep);
    ex.merge_audit = audit;
    ex.run(w)
}

/// Explore and keep every distinct reachable world (for differential second phases).
pub fn run_keep<P: Pid>(rep: &mut Report, cfg: EpCfg, limits: Limits) -> (Stats, Vec<Ep<P>>, Vec<Vec<Act>>) {
    let name = cfg.name.clone();
    let w = Ep::<P>::new(Arc::new(cfg));
    let mut ex = Explorer::new(&name, limits, rep);
    ex.keep_worlds = true;
    let st = ex.run(w);
    let kept = std::mem::take(&mut ex.kept);
    let hist = std::mem::take(&mut ex.kept_hist);
    (st, kept, hist)
}

pub fn role_name(r: RoleK) -> &'static str {
    match r {
        RoleK::Client => "client",
        RoleK::Server => "server",
        RoleK::Any => "any",
    }
}
pub fn ver_name(v: Option<Ver>) -> &'static str {
    match v {
        None => "undetermined",
        Some(Ver::V4) => "v3.1.1",
        Some(Ver::V5) => "v5.0",
    }
}

/// The session alphabet shared by C06 / C07 / C08 / C12 / C16: publishes, every acknowledgement
/// for ids 1..=n (hence matching, wrong kind, wrong id, duplicate), inbound QoS 1/2 with PUBREL,
/// close and reconnect (clean / resumed, session present or not).
pub fn session_alph(v5: bool, ack_ids: u32) -> Alph {
    Alph {
        pub_q: vec![0, 1, 2],
        topics: 1,
        als: vec![Al::No],
        peer_pub_q: vec![],
        peer_ids: vec![1, 2],
        peer_acks: vec![AckKind::Puback, AckKind::Pubrec, AckKind::Pubcomp],
        peer_ack_ids: (1..=ack_ids).collect(),
        peer_ack_err: v5,
        spontaneous_close: true,
        pub_any_status: true,
        ..Alph::default()
    }
}

pub fn cfg_name(prefix: &str, role: RoleK, ver: Option<Ver>, extra: &str) -> String {
    format!("{prefix} {} {} {extra}", role_name(role), ver_name(ver))
}

/// Replay a labelled history against a configuration found by name among `cfgs`.
pub fn replay_in<P: Pid>(cfgs: Vec<EpCfg>, config: &str, labels: &[String]) -> Result<Vec<String>, String> {
    let Some(cfg) = cfgs.into_iter().find(|c| c.name == config) else {
        return Err(format!("configuration {config:?} is not part of this property's grid"));
    };
    crate::explore::replay(Ep::<P>::new(Arc::new(cfg)), labels)
}
