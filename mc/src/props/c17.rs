//! C17 — receive gating by role (RECV-MATRIX) and protocol-version auto-detection (bisimulation).
use super::epc::*;
use crate::bridge::Pid;
use crate::conn::RoleK;
use crate::ep::*;
use crate::explore::{Explorer, Limits, StepOut, World};
use crate::refcodec::{self as rc, AckKind, Ver, AP};
use crate::report::Report;
use std::sync::Arc;

/// one minimal valid frame per packet-type nibble (reference-encoded), nibble 0 included
fn matrix_stimuli(ver: Ver, w: usize) -> Vec<(String, Vec<u8>)> {
    let mut v: Vec<(String, Vec<u8>)> = vec![("type0".into(), vec![0x00, 0x00])];
    let mut add = |n: &str, ap: AP| v.push((n.to_string(), rc::encode(&ap, w)));
    add("CONNECT", ConnProf::basic(true).ap(ver));
    add("CONNACK", AckProf::basic(false).ap(ver));
    add("PUBLISH q0", AP::Publish { ver, dup: false, qos: 0, retain: false, topic: b"a".to_vec(), pid: None, props: vec![], payload: vec![] });
    for k in [AckKind::Puback, AckKind::Pubrec, AckKind::Pubrel, AckKind::Pubcomp] {
        add(k.name(), AP::Ack { ver, kind: k, pid: 1, code: None, props: None });
    }
    add("SUBSCRIBE", AP::Subscribe { ver, pid: 1, props: vec![], entries: vec![(b"f".to_vec(), 0)] });
    add("SUBACK", AP::Suback { ver, pid: 1, props: vec![], codes: vec![0] });
    add("UNSUBSCRIBE", AP::Unsubscribe { ver, pid: 1, props: vec![], filters: vec![b"f".to_vec()] });
    add("UNSUBACK", AP::Unsuback { ver, pid: 1, props: vec![], codes: if ver == Ver::V5 { vec![0] } else { vec![] } });
    add("PINGREQ", AP::Pingreq { ver });
    add("PINGRESP", AP::Pingresp { ver });
    add("DISCONNECT", AP::Disconnect { ver, code: None, props: None });
    if ver == Ver::V5 {
        add("AUTH", AP::Auth { code: None, props: None });
    } else {
        v.push(("type15".into(), vec![0xF0, 0x00]));
    }
    // the same frames with other flag nibbles: which kinds a role may receive does not depend on the flags
    let base = v.clone();
    for (n, b) in base {
        let canon = b[0] & 0x0F;
        for f in [canon ^ 0x1, canon ^ 0x2, 0x0, 0xF, 0x8] {
            if f != canon && (b[0] >> 4) != 3 {
                let mut m = b.clone();
                m[0] = (m[0] & 0xF0) | f;
                v.push((format!("{n} flags={f:x}"), m));
            }
        }
    }
    let mut seen = std::collections::HashSet::new();
    v.retain(|(_, b)| seen.insert(b.clone()));
    v
}

pub fn matrix_configs(thorough: bool) -> Vec<EpCfg> {
    let mut v = vec![];
    for role in [RoleK::Client, RoleK::Server, RoleK::Any] {
        for ver in [Some(Ver::V4), Some(Ver::V5), None] {
            if ver.is_none() && role == RoleK::Client {
                continue;
            }
            for auto in [true, false] {
                if !thorough && !auto {
                    continue;
                }
                let mut c = EpCfg::new(&cfg_name("c17-matrix", role, ver, &format!("auto={auto}")), role, ver);
                c.auto_pub = auto;
                c.auto_ping = auto;
                c.window = 2;
                // the reach set: the three canonical statuses and (thorough) C06's session states
                c.alph = session_alph(ver == Some(Ver::V5), 2);
                c.alph.second_connack = true;
                c.alph.second_connect = true;
                // ... including right behind the peer's own DISCONNECT, before the application closed
                c.alph.peer_disconnect = true;
                c.alph.after_disconnect = true;
                if !thorough {
                    c.alph.pub_q = vec![1];
                    c.alph.peer_acks = vec![AckKind::Puback];
                    c.alph.peer_ack_ids = vec![1];
                }
                let mut st = match ver {
                    Some(x) => matrix_stimuli(x, 2),
                    None => {
                        let mut s = matrix_stimuli(Ver::V4, 2);
                        s.extend(matrix_stimuli(Ver::V5, 2).into_iter().filter(|x| x.0 == "CONNECT" || x.0 == "AUTH").map(|x| (format!("v5 {}", x.0), x.1)));
                        // other protocol levels
                        // a CONNECT of a supported level that the parser of that level turns down (reserved Connect Flags
                        // bit set): answered in that version's format, and the version is fixed from then on
                        for (name, vv) in [("v3.1.1", Ver::V4), ("v5.0", Ver::V5)] {
                            let mut c = rc::encode(&ConnProf::basic(true).ap(vv), 2);
                            c[9] |= 0x01;
                            s.push((format!("CONNECT {name} with the reserved flag bit"), c));
                        }
                        // a first CONNECT whose Protocol Name length field is not 4 (shorter, longer, beyond the end of
                        // the packet): turned down like by a fixed-version server, never a panic
                        for (name, vv) in [("v3.1.1", Ver::V4), ("v5.0", Ver::V5)] {
                            for nl in [0u16, 1, 3, 5, 6, 0x0040, 0x0400, 0xFFFF] {
                                let mut c = rc::encode(&ConnProf::basic(true).ap(vv), 2);
                                c[2] = (nl >> 8) as u8;
                                c[3] = nl as u8;
                                s.push((format!("CONNECT {name} with Protocol Name length {nl}"), c));
                            }
                        }
                        // (every value of the Protocol Level byte, on a v3.1.1-shaped and on a v5.0-shaped CONNECT)
                        for lvl in 0..=255u8 {
                            if lvl == 4 || lvl == 5 {
                                continue;
                            }
                            let mut c = rc::encode(&ConnProf::basic(true).ap(Ver::V4), 2);
                            c[8] = lvl;
                            s.push((format!("CONNECT level={lvl}"), c));
                            let mut c = rc::encode(&ConnProf::basic(false).ap(Ver::V5), 2);
                            c[8] = lvl;
                            s.push((format!("CONNECT (v5.0 layout) level={lvl}"), c));
                        }
                        s
                    }
                };
                st.dedup();
                c.stimuli = Arc::new(st);
                c.groups = vec!["c17"];
                v.push(c);
            }
        }
    }
    v
}

// ------------------------------------------------------------------------------------------
// auto-detection: an undetermined server U and a fixed-version server F driven in lockstep

#[derive(Clone)]
pub struct Bisim<P: Pid> {
    u: Ep<P>,
    f: Ep<P>,
}

impl<P: Pid> World for Bisim<P> {
    type Act = Act;
    fn enabled(&self) -> Vec<Act> {
        // before the first CONNECT the undetermined server has no version: nothing can be sent with it,
        // so the comparison starts with the CONNECT (everything else is the matrix's business)
        let fe = self.f.enabled();
        if self.u.m.ver.is_none() {
            let ue = self.u.enabled();
            return fe.into_iter().filter(|a| ue.contains(a)).collect();
        }
        fe
    }
    fn step(&mut self, a: &Act, out: &mut StepOut) {
        let mut so_u = StepOut::new(true);
        let mut so_f = StepOut::new(true);
        let enabled_u = self.u.enabled();
        if !enabled_u.contains(a) {
            out.viol("c17.bisim-enabled", format!("c17.bisim-enabled|{}", act_kind(a)), format!("action {a:?} is enabled on the fixed-version server but not on the auto-detecting one"));
            return;
        }
        self.u.step(a, &mut so_u);
        self.f.step(a, &mut so_f);
        for l in &so_f.labels {
            out.label(l);
        }
        out.log = so_f.log.clone();
        if so_u.log != so_f.log {
            out.viol("c17.bisim-events", format!("c17.bisim-events|{}|v{}", act_kind(a), self.f.ver().level()), format!("after adopting the version the auto-detecting server must behave exactly like a fixed-version server; on {a:?}: undetermined {:?} vs fixed {:?}", so_u.log, so_f.log));
        }
        let su = self.u.conn.snap();
        let sf = self.f.conn.snap();
        let adopted = su.protocol_version != 0;
        if adopted && su != sf {
            out.viol("c17.bisim-state", format!("c17.bisim-state|{}|v{}", act_kind(a), self.f.ver().level()), format!("state of the auto-detecting server differs from the fixed-version server after {a:?}"));
        }
        if adopted {
            out.label("c17.bisim-adopted-step");
        }
        // violations found by the ordinary rules on either side
        for v in so_u.violations.into_iter().chain(so_f.violations) {
            out.violations.push(v);
        }
    }
    fn key(&self) -> u128 {
        crate::util::fp128(&(self.u.key(), self.f.key()))
    }
    fn sig_label(&self, a: &Act) -> String {
        act_kind(a)
    }
}

fn bisim_cfgs(ver: Ver, thorough: bool, opts: u8) -> (EpCfg, EpCfg) {
    let mk = |v: Option<Ver>| {
        let mut c = EpCfg::new(&format!("c17-bisim server {} vs undetermined{}", ver_name(Some(ver)), match opts { 1 => " +auto-map +offline", 2 => " +auto-replace manual", _ => "" }), RoleK::Server, v);
        c.auto_pub = opts != 2;
        c.auto_ping = true;
        // every option is set right after construction - when the undetermined object has no version yet
        c.auto_map = opts == 1;
        c.offline = opts == 1;
        c.auto_replace = opts == 2;
        c.pingresp_to = if opts == 0 { 0 } else { 5 };
        c.window = 2;
        c.alph = Alph {
            pub_q: vec![0, 1, 2],
            topics: 1,
            als: vec![Al::No],
            peer_pub_q: vec![0, 1, 2],
            peer_ids: vec![1, 2],
            peer_dup: true,
            peer_acks: vec![AckKind::Puback, AckKind::Pubrec, AckKind::Pubrel, AckKind::Pubcomp],
            peer_ack_ids: vec![1, 2],
            peer_ack_err: ver == Ver::V5,
            peer_sub: true,
            peer_ping: true,
            peer_disconnect: true,
            peer_auth: ver == Ver::V5,
            second_connect: true,
            after_disconnect: true,
            timers: true,
            spontaneous_close: true,
            pub_any_status: true,
            disconnect: ver == Ver::V5,
            ..Alph::default()
        };
        if !thorough {
            c.alph.peer_ids = vec![1];
            c.alph.peer_ack_ids = vec![1];
        }
        c.connects = vec![ConnProf { ka: 1, ..ConnProf::basic(true) }, ConnProf::basic(false)];
        if ver == Ver::V5 {
            c.connects.push(ConnProf { rm: Some(1), tam: Some(1), mps: Some(30), ..ConnProf::basic(false) });
        }
        c.connacks = vec![AckProf::basic(false), AckProf::basic(true), AckProf { ok: false, ..AckProf::basic(false) }];
        if opts != 0 {
            // alias options need a Topic Alias Maximum from the client, two topics and registrations
            c.alph.topics = 2;
            c.alph.als = if opts == 2 { vec![Al::No, Al::Reg(1)] } else { vec![Al::No] };
            c.alph.peer_pub_q = vec![1];
            c.alph.peer_acks = vec![AckKind::Puback];
            c.alph.peer_auth = false;
            c.alph.peer_sub = false;
            c.connects = vec![ConnProf { tam: Some(2), ..ConnProf::basic(true) }, ConnProf { tam: Some(2), ..ConnProf::basic(false) }];
        }
        c.force_connect_ver = Some(ver);
        c.groups = vec!["c17"];
        c
    };
    (mk(None), mk(Some(ver)))
}

/// Auto-detection with a restored store: `restore_packets()` is the one call that can precede the first
/// CONNECT. An undetermined server and a fixed-version server get the same export (entries of both
/// protocol versions), the same CONNECT, CONNACK and follow-up traffic; every step must give equal events
/// and, once the version is adopted, equal state. Exhaustive over exports of <= 2 entries x adopting
/// version x Session Present x follow-up script.
fn restored_bisim(rep: &mut Report) {
    use crate::bridge;
    use crate::conn::{ConnBox, Ev};
    use crate::report::Violation;
    use crate::util::{debug_diff, guarded};
    use mqtt_protocol_core::mqtt::packet::{GenericPacket, GenericStorePacket};
    use serde_json::json;
    // (kind: 1 = PUBLISH QoS 1, 2 = PUBLISH QoS 2, 3 = PUBREL; id; version of the entry)
    let kinds: Vec<(u8, u32, Ver)> = vec![(1, 1, Ver::V4), (1, 1, Ver::V5), (2, 2, Ver::V4), (2, 2, Ver::V5), (3, 3, Ver::V4), (3, 3, Ver::V5)];
    let mut exports: Vec<Vec<usize>> = vec![vec![]];
    for a in 0..kinds.len() {
        exports.push(vec![a]);
        for b in 0..kinds.len() {
            if kinds[a].1 != kinds[b].1 {
                exports.push(vec![a, b]);
            }
        }
    }
    let mut n = 0u64;
    let mut steps = 0u64;
    for ver in [Ver::V4, Ver::V5] {
        for ex in &exports {
            for (sp, rm) in [(true, None), (false, None), (true, Some(2u16)), (false, Some(1u16))] {
                // (the client's Receive Maximum makes the server count the resumed exchanges when it processes
                // the CONNECT - entries that are dropped at adoption must not be among them)
                if rm.is_some() && ver == Ver::V4 {
                    continue;
                }
                n += 1;
                let kinds2 = kinds.clone();
                let ex2 = ex.clone();
                let hist_head = format!("restore_packets({:?}) (kind 1/2 = PUBLISH QoS, 3 = PUBREL; id; version) into Server(Undetermined) and Server({ver:?}); recv CONNECT {ver:?} persistent (Receive Maximum {rm:?}); send CONNACK sp={sp}", ex.iter().map(|i| kinds[*i]).collect::<Vec<_>>());
                let r = guarded(move || -> Result<u64, (String, String)> {
                    let mk = |k: (u8, u32, Ver)| -> GenericStorePacket<u16> {
                        let p: GenericPacket<u16> = if k.0 == 3 {
                            bridge::build::<u16>(&AP::Ack { ver: k.2, kind: AckKind::Pubrel, pid: k.1, code: None, props: None }).ok().unwrap()
                        } else {
                            bridge::build::<u16>(&AP::Publish { ver: k.2, dup: true, qos: k.0, retain: false, topic: b"a".to_vec(), pid: Some(k.1), props: vec![], payload: b"p".to_vec() }).ok().unwrap()
                        };
                        match p {
                            GenericPacket::V3_1_1Publish(x) => GenericStorePacket::V3_1_1Publish(x),
                            GenericPacket::V5_0Publish(x) => GenericStorePacket::V5_0Publish(x),
                            GenericPacket::V3_1_1Pubrel(x) => GenericStorePacket::V3_1_1Pubrel(x),
                            GenericPacket::V5_0Pubrel(x) => GenericStorePacket::V5_0Pubrel(x),
                            _ => unreachable!(),
                        }
                    };
                    let mut u = ConnBox::<u16>::new(RoleK::Server, None);
                    let mut f = ConnBox::<u16>::new(RoleK::Server, Some(ver));
                    u.restore_packets(ex2.iter().map(|i| mk(kinds2[*i])).collect());
                    f.restore_packets(ex2.iter().map(|i| mk(kinds2[*i])).collect());
                    let mut done = 0u64;
                    let mut cmp = |what: String, lu: Vec<Vec<Ev>>, lf: Vec<Vec<Ev>>, u: &ConnBox<u16>, f: &ConnBox<u16>| -> Result<(), (String, String)> {
                        done += 1;
                        if lu != lf {
                            return Err((format!("events|{}", what.split(' ').take(2).collect::<Vec<_>>().join(" ")), format!("at '{what}': undetermined {lu:?} vs fixed {lf:?}")));
                        }
                        let (su, sf) = (u.snap(), f.snap());
                        if su != sf {
                            let (names, text) = debug_diff(&su, &sf);
                            return Err((format!("state|{}", names.join("+")), format!("after '{what}' the auto-detecting server differs from the fixed-version one in {names:?}: {text}")));
                        }
                        Ok(())
                    };
                    let connect = rc::encode(&ConnProf { rm, ..ConnProf::basic(false) }.ap(ver), 2);
                    let (mut lu, _) = u.recv_all(&connect);
                    let (lf, _) = f.recv_all(&connect);
                    // the adoption step itself: the auto-detecting server held the identifiers of the entries of
                    // the other version until now (a fixed-version server never took them) and announces exactly
                    // their release (C08; in no particular order), ahead of what the fixed-version server returns
                    let mut other_ids: Vec<u32> = ex2.iter().map(|i| kinds2[*i]).filter(|k| k.2 != ver).map(|k| k.1).collect();
                    other_ids.sort();
                    if let Some(first) = lu.first_mut() {
                        let k = first.iter().take_while(|e| matches!(e, Ev::Released(_))).count();
                        let mut announced: Vec<u32> = first.drain(..k).filter_map(|e| if let Ev::Released(x) = e { Some(x) } else { None }).collect();
                        announced.sort();
                        if announced != other_ids {
                            return Err(("adoption-announcements".into(), format!("at the adopting CONNECT the auto-detecting server announces the release of {announced:?}; the entries of the other version it drops have the identifiers {other_ids:?}")));
                        }
                    }
                    cmp("recv CONNECT".into(), lu, lf, &u, &f)?;
                    if u.vacancy() != f.vacancy() {
                        return Err(("vacancy".into(), format!("after the CONNECT get_receive_maximum_vacancy_for_send() is {:?} on the auto-detecting server, {:?} on the fixed-version one", u.vacancy(), f.vacancy())));
                    }
                    let ack = AckProf::basic(sp).ap(ver);
                    let lu = u.send(bridge::build::<u16>(&ack).ok().unwrap());
                    let lf = f.send(bridge::build::<u16>(&ack).ok().unwrap());
                    cmp(format!("send CONNACK sp={sp}"), vec![lu], vec![lf], &u, &f)?;
                    // the peer acknowledges whatever may have been retransmitted, then the application publishes
                    for (kind, id) in [(AckKind::Puback, 1u32), (AckKind::Pubrec, 2), (AckKind::Pubcomp, 2), (AckKind::Pubcomp, 3)] {
                        let fr = rc::encode(&AP::Ack { ver, kind, pid: id, code: None, props: None }, 2);
                        // a protocol error closes the transport: both sides stop there alike
                        let (lu, _) = u.recv_all(&fr);
                        let (lf, _) = f.recv_all(&fr);
                        let closed = lf.iter().flatten().any(|e| matches!(e, Ev::Close));
                        cmp(format!("recv {} id {id}", kind.name()), lu, lf, &u, &f)?;
                        if closed {
                            let lu = u.notify_closed();
                            let lf = f.notify_closed();
                            cmp("notify_closed()".into(), vec![lu], vec![lf], &u, &f)?;
                            return Ok(done);
                        }
                    }
                    for q in [1u8, 2, 1] {
                        let (iu, jf) = (u.acquire(), f.acquire());
                        if iu != jf {
                            return Err(("acquire".into(), format!("acquire_packet_id(): undetermined {iu:?} vs fixed {jf:?}")));
                        }
                        let Ok(id) = iu else { break };
                        let ap = AP::Publish { ver, dup: false, qos: q, retain: false, topic: b"a".to_vec(), pid: Some(id), props: vec![], payload: b"p".to_vec() };
                        let lu = u.send(bridge::build::<u16>(&ap).ok().unwrap());
                        let lf = f.send(bridge::build::<u16>(&ap).ok().unwrap());
                        cmp(format!("send PUBLISH q{q} id {id}"), vec![lu], vec![lf], &u, &f)?;
                    }
                    Ok(done)
                });
                let history = vec![json!(hist_head)];
                match r {
                    Err(m) => rep.violation(Violation { rule: "c17.bisim-restored".into(), sig: format!("c17.bisim-restored|panic|{}|v{}", crate::util::panic_sig(&m), ver.level()), detail: format!("panic while driving an auto-detecting server with a restored store in lock-step with a fixed-version server: {m}"), config: "c17 auto-detection with a restored store".into(), history }),
                    Ok(Err((sig, text))) => rep.violation(Violation { rule: "c17.bisim-restored".into(), sig: format!("c17.bisim-restored|{sig}|v{}", ver.level()), detail: format!("after adopting the version the auto-detecting server must behave exactly like a server created with it; {text}"), config: "c17 auto-detection with a restored store".into(), history }),
                    Ok(Ok(d)) => steps += d,
                }
            }
        }
    }
    rep.count("c17.bisim-restored-scripts", n);
    rep.count("c17.bisim-restored-steps", steps);
    rep.add_cov("traces_validated_against_impl", n);
}

pub fn run(rep: &mut Report) {
    let thorough = rep.thorough();
    for cfg in matrix_configs(thorough) {
        let lim = if thorough { Limits::new(200, 400_000, 60.0) } else { Limits::new(200, 60_000, 4.0) };
        run_cfg::<u16>(rep, cfg, lim, false);
    }
    for (ver, opts) in [(Ver::V4, 0u8), (Ver::V5, 0), (Ver::V5, 1), (Ver::V5, 2), (Ver::V4, 1)] {
        let (cu, cf) = bisim_cfgs(ver, thorough, opts);
        let name = cf.name.clone();
        let w = Bisim::<u16> { u: Ep::new(Arc::new(cu)), f: Ep::new(Arc::new(cf)) };
        let lim = if thorough { Limits::new(300, 1_500_000, 200.0) } else { Limits::new(300, 120_000, 8.0) };
        let mut ex = Explorer::new(&name, lim, rep);
        ex.run(w);
    }
    restored_bisim(rep);
    rep.floor("c17.bisim-restored-steps", 500);
    for f in ["c17.forbidden-direction", "c17.reserved-type", "c17.undetermined-non-connect", "c17.undetermined-adopts", "c17.undetermined-rejects-level", "c17.connack-on-established", "c17.connect-on-established", "c17.bisim-adopted-step", "c17.version-adopted"] {
        rep.floor(f, 1);
    }
    rep.assume("a CONNACK reaching a client that never sent CONNECT (status disconnected) is outside the statement and is not judged (two existing tests rely on it being processed)");
}

pub fn replay(config: &str, labels: &[String]) -> Result<Vec<String>, String> {
    if config.starts_with("c17-bisim") {
        let ver = if config.contains("v5.0") { Ver::V5 } else { Ver::V4 };
        let opts = if config.contains("+auto-map") { 1 } else if config.contains("+auto-replace") { 2 } else { 0 };
        let (cu, cf) = bisim_cfgs(ver, true, opts);
        let w = Bisim::<u16> { u: Ep::new(Arc::new(cu)), f: Ep::new(Arc::new(cf)) };
        return crate::explore::replay(w, labels);
    }
    replay_in::<u16>(matrix_configs(true).into_iter().chain(matrix_configs(false)).collect(), config, labels)
}
