//! C06 — outbound QoS 1/2: stored until acknowledged, retransmitted on session resume.
use super::epc::*;
use crate::conn::RoleK;
use crate::ep::*;
use crate::explore::Limits;
use crate::refcodec::Ver;
use crate::report::Report;

pub fn configs(thorough: bool) -> Vec<EpCfg> {
    let mut v = vec![];
    let roles = [RoleK::Client, RoleK::Server, RoleK::Any];
    for role in roles {
        for ver in [Ver::V4, Ver::V5] {
            for auto in [true, false] {
                for offline in [false, true] {
                    if !thorough && role == RoleK::Any && (offline || !auto) {
                        continue;
                    }
                    let mut c = EpCfg::new(&cfg_name("c06", role, Some(ver), &format!("auto={auto} offline={offline}")), role, Some(ver));
                    c.auto_pub = auto;
                    c.offline = offline;
                    c.window = if thorough { 3 } else { 2 };
                    c.alph = session_alph(ver == Ver::V5, if thorough { 3 } else { 2 });
                    c.alph.second_connack = true;
                    c.alph.peer_disconnect = true;
                    c.alph.after_disconnect = true;
                    c.alph.erase = true;
                    c.alph.defer_pubrel = true;
                    c.alph.early_peer_traffic = true;
                    c.alph.send_fail = thorough;
                    // a DISCONNECT that carries a Session Expiry Interval (0 or 100): the client's decides about the
                    // session, one sent by a server decides nothing about the client's
                    c.alph.disconnect_expiry0 = ver == Ver::V5 && auto && (offline || role == RoleK::Any);
                    // a refused connection attempt (failure CONNACK sent or received) leaves the session alone
                    c.connacks.push(AckProf { ok: false, ..AckProf::basic(false) });
                    if auto && !offline && (thorough || role == RoleK::Client) {
                        c.alph.toggle_opts = vec![0, 1];
                    }
                    // manual responses: set_offline_publish() switched on and off again (also between connections)
                    if !auto && !offline && (thorough || role == RoleK::Client) {
                        c.alph.toggle_opts = vec![1];
                    }
                    c.groups = vec!["c06"];
                    v.push(c);
                }
            }
        }
    }
    // three exchanges in flight (order of the store after an erase in the middle)
    if !thorough {
        for (role, ver) in [(RoleK::Client, Ver::V4), (RoleK::Server, Ver::V5)] {
            let mut c = EpCfg::new(&cfg_name("c06", role, Some(ver), "auto=true window=3"), role, Some(ver));
            c.auto_pub = true;
            c.window = 3;
            c.alph = session_alph(ver == Ver::V5, 3);
            c.alph.pub_q = vec![1, 2];
            c.alph.peer_ack_err = false;
            // (erase_stored_publish() of the first of three entries as well)
            c.alph.erase = true;
            c.connects = vec![ConnProf::basic(false)];
            c.connacks = vec![AckProf::basic(true)];
            c.groups = vec!["c06"];
            v.push(c);
        }
    }
    v.extend(super::eps::large_id_configs("c06", "c06", thorough));
    v.extend(super::eps::clean_start_expiry_configs("c06", "c06", thorough));
    // v5: property blocks of 125..130 bytes on publishes that register an alias: the stored copy (alias removed)
    // crosses the one-byte / two-byte Property Length boundary
    for pad in [119usize, 120, 121, 122] {
        if !thorough && !(pad == 119 || pad == 121) {
            continue;
        }
        let mut c = EpCfg::new(&cfg_name("c06", RoleK::Client, Some(Ver::V5), &format!("padded-properties={pad}")), RoleK::Client, Some(Ver::V5));
        c.auto_pub = true;
        c.window = 1;
        c.pub_pad = pad;
        c.alph = session_alph(true, 1);
        c.alph.pub_q = vec![1, 2];
        c.alph.als = vec![Al::No, Al::Reg(1), Al::Use(1)];
        c.connects = vec![ConnProf { ..ConnProf::basic(false) }];
        c.connacks = vec![AckProf { tam: Some(1), ..AckProf::basic(true) }];
        c.groups = vec!["c06"];
        v.push(c);
    }
    // v5: aliases and a tight Maximum Packet Size on resume
    for role in [RoleK::Client, RoleK::Server] {
        let mut c = EpCfg::new(&cfg_name("c06", role, Some(Ver::V5), "alias+mps"), role, Some(Ver::V5));
        c.auto_pub = true;
        c.window = 2;
        c.alph = session_alph(true, 2);
        c.alph.topics = 2;
        c.alph.als = vec![Al::No, Al::Reg(1), Al::Use(1)];
        c.alph.pub_q = vec![1, 2];
        let big = ConnProf { tam: None, mps: None, ..ConnProf::basic(false) };
        let small = ConnProf { mps: Some(12), tam: Some(2), ..ConnProf::basic(false) };
        let tam = ConnProf { tam: Some(2), ..ConnProf::basic(false) };
        c.connects = vec![ConnProf::basic(true), big, small, tam];
        c.connacks = vec![
            AckProf::basic(false),
            AckProf::basic(true),
            AckProf { tam: Some(2), ..AckProf::basic(true) },
            AckProf { tam: Some(2), mps: Some(12), ..AckProf::basic(true) },
        ];
        c.groups = vec!["c06"];
        v.push(c);
    }
    // v5: a session resumed under a smaller Maximum Packet Size than the one it was built under: of three stored
    // messages on topics of different length, those that no longer fit are dropped (identifier released),
    // every other one is retransmitted, in order - wherever in the store the oversize ones sit
    for role in [RoleK::Client, RoleK::Server] {
        if !thorough && role == RoleK::Server {
            continue;
        }
        let mut c = EpCfg::new(&cfg_name("c06", role, Some(Ver::V5), "resume under a smaller size limit"), role, Some(Ver::V5));
        c.auto_pub = true;
        c.window = 3;
        c.alph = session_alph(true, 3);
        c.alph.topics = 3;
        c.alph.als = vec![Al::No];
        c.alph.pub_q = vec![1];
        c.alph.peer_acks = vec![crate::refcodec::AckKind::Puback];
        // (limit 10 is exactly the size of the stored PUBLISH on topic "bb": it still fits and is retransmitted)
        c.connects = vec![ConnProf::basic(false), ConnProf { mps: Some(12), ..ConnProf::basic(false) }, ConnProf { mps: Some(10), ..ConnProf::basic(false) }];
        c.connacks = vec![AckProf::basic(true), AckProf { mps: Some(12), ..AckProf::basic(true) }, AckProf { mps: Some(10), ..AckProf::basic(true) }];
        c.groups = vec!["c06"];
        v.push(c);
    }
    v
}

pub fn run(rep: &mut Report) {
    let thorough = rep.thorough();
    for cfg in configs(thorough) {
        let lim = Limits::new(200, if thorough { 3_000_000 } else { 150_000 }, if thorough { 240.0 } else { 12.0 });
        run_cfg::<u16>(rep, cfg, lim, thorough);
    }
    // 32-bit packet identifiers (broker-cluster use): same rules, one client and one server configuration
    for (role, ver) in [(RoleK::Client, Ver::V5), (RoleK::Server, Ver::V4)] {
        let mut c = EpCfg::new(&cfg_name("c06-u32", role, Some(ver), "auto=false offline=true"), role, Some(ver));
        c.offline = true;
        c.window = 2;
        c.alph = session_alph(ver == Ver::V5, 2);
        c.alph.second_connack = true;
        c.alph.erase = true;
        c.alph.defer_pubrel = true;
        c.groups = vec!["c06"];
        run_cfg::<u32>(rep, c, Limits::new(200, 300_000, 30.0), false);
    }
    first_bytes(rep);
    for f in ["c06.stored", "c06.pubrel-stored", "c06.resume-retransmit", "ack.matching", "ack.unexpected", "session.resumed", "session.not-present", "session.clean-start", "c06.erase", "pub.accepted-not-sent", "pub.refused", "c17.connack-on-established"] {
        rep.floor(f, 1);
    }
    rep.assume("application contract of DESIGN §2.4: ids come from acquire_packet_id and acquire+send is one step; mandatory replies (PUBREL after PUBREC in manual mode) are issued in the same application step; the server application sends CONNACK session-present exactly when it kept the session; CONNACK does not override the session expiry");
}

/// A persistent session with one stored PUBLISH (built on the object itself, or restored into a fresh one), the
/// connection closed. The first bytes the peer sends on the next transport are not under the application's
/// control: every sequence of <= 3 frames over {CONNACK with Session Present 1 (although no CONNECT was sent),
/// PINGRESP, PUBLISH QoS 0, v5.0: DISCONNECT with Session Expiry Interval 0, plain DISCONNECT}, then the close. None of them is an acknowledgement, an
/// erase or an oversize drop: the PUBLISH stays stored with its identifier held, and the next regular resume
/// retransmits it.
fn first_bytes(rep: &mut Report) {
    use crate::bridge::build;
    use crate::conn::{ConnBox, Ev};
    use crate::refcodec::{self as rc, PVal, Prop, AP};
    use crate::report::Violation;
    let mut n = 0u64;
    for role in [RoleK::Client, RoleK::Any] {
        for ver in [Ver::V4, Ver::V5] {
            for restored in [false, true] {
                let frames: Vec<(&str, AP)> = {
                    let mut f = vec![("CONNACK(session present 1) without a CONNECT", AckProf::basic(true).ap(ver)), ("PINGRESP", AP::Pingresp { ver })];
                    f.push(("PUBLISH QoS 0", AP::Publish { ver, dup: false, qos: 0, retain: false, topic: b"a".to_vec(), pid: None, props: vec![], payload: b"p".to_vec() }));
                    if ver == Ver::V5 {
                        f.push(("DISCONNECT(Session Expiry Interval 0)", AP::Disconnect { ver, code: Some(0), props: Some(vec![Prop { id: 0x11, val: PVal::U32(0) }]) }));
                        f.push(("DISCONNECT", AP::Disconnect { ver, code: None, props: None }));
                    }
                    f
                };
                let mut seqs: Vec<Vec<usize>> = vec![];
                for a in 0..frames.len() {
                    seqs.push(vec![a]);
                    for b in 0..frames.len() {
                        seqs.push(vec![a, b]);
                        for c in 0..frames.len() {
                            seqs.push(vec![a, b, c]);
                        }
                    }
                }
                for sq in seqs {
                    n += 1;
                    let names: Vec<&str> = sq.iter().map(|i| frames[*i].0).collect();
                    let fr: Vec<AP> = sq.iter().map(|i| frames[*i].1.clone()).collect();
                    let r = crate::util::guarded(move || -> Result<(), String> {
                        let mut c = ConnBox::<u16>::new(role, Some(ver));
                        c.set_auto_pub_response(true);
                        let _ = c.send(build::<u16>(&ConnProf::basic(false).ap(ver)).ok().unwrap());
                        let _ = c.recv_all(&rc::encode(&AckProf::basic(false).ap(ver), 2));
                        let id = c.acquire().map_err(|e| format!("acquire: {e:?}"))?;
                        let p = AP::Publish { ver, dup: false, qos: 1, retain: false, topic: b"a".to_vec(), pid: Some(id), props: vec![], payload: b"p".to_vec() };
                        let _ = c.send(build::<u16>(&p).ok().unwrap());
                        let _ = c.notify_closed();
                        if restored {
                            let export = c.stored();
                            c = ConnBox::<u16>::new(role, Some(ver));
                            c.set_auto_pub_response(true);
                            c.restore_packets(export);
                        }
                        if c.stored().len() != 1 {
                            return Err("setup: the PUBLISH is not stored".into());
                        }
                        for f in &fr {
                            let (l, _) = c.recv_all(&rc::encode(f, 2));
                            // a close request, a received DISCONNECT: the application closes the transport
                            if l.iter().flatten().any(|e| matches!(e, Ev::Close)) || matches!(f, AP::Disconnect { .. }) {
                                break;
                            }
                        }
                        let ev = c.notify_closed();
                        if ev.iter().any(|e| matches!(e, Ev::Released(_))) || c.stored().len() != 1 || c.clone().register(id).is_ok() {
                            return Err(format!("after the close the store holds {} packet(s), identifier {id} is {}, notify_closed() returned {:?}", c.stored().len(), if c.clone().register(id).is_ok() { "free" } else { "in use" }, ev.iter().map(|e| e.short()).collect::<Vec<_>>()));
                        }
                        let _ = c.send(build::<u16>(&ConnProf::basic(false).ap(ver)).ok().unwrap());
                        let (l, _) = c.recv_all(&rc::encode(&AckProf::basic(true).ap(ver), 2));
                        let resent = l.iter().flatten().filter(|e| matches!(e, Ev::Send { ap: AP::Publish { dup: true, .. }, .. })).count();
                        if resent != 1 {
                            return Err(format!("the next resume retransmits {resent} packet(s): {:?}", l.iter().flatten().map(|e| e.short()).collect::<Vec<_>>()));
                        }
                        Ok(())
                    });
                    let cfgname = format!("c06 first bytes on the next transport ({role:?} {ver:?}{})", if restored { ", session restored into a fresh object" } else { "" });
                    let hist = vec![serde_json::json!(format!("persistent session with a stored PUBLISH QoS 1, closed{}; peer's first bytes: {names:?}; notify_closed(); CONNECT; CONNACK(session present 1)", if restored { "; exported and restored into a fresh object" } else { "" }))];
                    let tag = names.iter().map(|s| s.split('(').next().unwrap_or("")).collect::<Vec<_>>().join("+");
                    match r {
                        Err(m) => rep.violation(Violation { rule: "c06.first-bytes".into(), sig: format!("c06.first-bytes|panic|{}", crate::util::panic_sig(&m)), detail: format!("panic: {m}"), config: cfgname, history: hist }),
                        Ok(Err(t)) => rep.violation(Violation { rule: "c06.first-bytes".into(), sig: format!("c06.first-bytes|{tag}|v{}|{role:?}", ver.level()), detail: format!("the stored PUBLISH of a persistent session was neither acknowledged nor erased nor dropped as oversize, yet {t}"), config: cfgname, history: hist }),
                        Ok(Ok(())) => {}
                    }
                }
            }
        }
    }
    rep.count("c06.first-bytes-scripts", n);
    rep.add_cov("traces_validated_against_impl", n);
}

pub fn replay(config: &str, labels: &[String]) -> Result<Vec<String>, String> {
    replay_in::<u16>(configs(true).into_iter().chain(configs(false)).collect(), config, labels)
}
