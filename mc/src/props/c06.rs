//! C06 — outbound QoS 1/2: stored until acknowledged, retransmitted on session resume.
use super::epc::*;
use crate::conn::RoleK;
use crate::ep::*;
use crate::explore::Limits;
use crate::refcodec::Ver;
use crate::report::Report;

pub fn configs(thorough: bool) -> Vec<EpCfg> {
    let mut v = vec![];
    let roles = [RoleK::Client, RoleK::Server, RoleK::Any];
    for role in roles {
        for ver in [Ver::V4, Ver::V5] {
            for auto in [true, false] {
                for offline in [false, true] {
                    if !thorough && role == RoleK::Any && (offline || !auto) {
                        continue;
                    }
                    let mut c = EpCfg::new(&cfg_name("c06", role, Some(ver), &format!("auto={auto} offline={offline}")), role, Some(ver));
                    c.auto_pub = auto;
                    c.offline = offline;
                    c.window = if thorough { 3 } else { 2 };
                    c.alph = session_alph(ver == Ver::V5, if thorough { 3 } else { 2 });
                    c.alph.second_connack = true;
                    c.alph.peer_disconnect = true;
                    c.alph.after_disconnect = true;
                    c.alph.erase = true;
                    c.alph.defer_pubrel = true;
                    c.alph.early_peer_traffic = true;
                    c.alph.send_fail = thorough;
                    // a DISCONNECT that carries a Session Expiry Interval (0 or 100): the client's decides about the
                    // session, one sent by a server decides nothing about the client's
                    c.alph.disconnect_expiry0 = ver == Ver::V5 && auto && offline;
                    // a refused connection attempt (failure CONNACK sent or received) leaves the session alone
                    c.connacks.push(AckProf { ok: false, ..AckProf::basic(false) });
                    if auto && !offline && (thorough || role == RoleK::Client) {
                        c.alph.toggle_opts = vec![0, 1];
                    }
                    // manual responses: set_offline_publish() switched on and off again (also between connections)
                    if !auto && !offline && (thorough || role == RoleK::Client) {
                        c.alph.toggle_opts = vec![1];
                    }
                    c.groups = vec!["c06"];
                    v.push(c);
                }
            }
        }
    }
    // three exchanges in flight (order of the store after an erase in the middle)
    if !thorough {
        for (role, ver) in [(RoleK::Client, Ver::V4), (RoleK::Server, Ver::V5)] {
            let mut c = EpCfg::new(&cfg_name("c06", role, Some(ver), "auto=true window=3"), role, Some(ver));
            c.auto_pub = true;
            c.window = 3;
            c.alph = session_alph(ver == Ver::V5, 3);
            c.alph.pub_q = vec![1, 2];
            c.alph.peer_ack_err = false;
            // (erase_stored_publish() of the first of three entries as well)
            c.alph.erase = true;
            c.connects = vec![ConnProf::basic(false)];
            c.connacks = vec![AckProf::basic(true)];
            c.groups = vec!["c06"];
            v.push(c);
        }
    }
    v.extend(super::eps::large_id_configs("c06", "c06", thorough));
    v.extend(super::eps::clean_start_expiry_configs("c06", "c06", thorough));
    // v5: property blocks of 125..130 bytes on publishes that register an alias: the stored copy (alias removed)
    // crosses the one-byte / two-byte Property Length boundary
    for pad in [119usize, 120, 121, 122] {
        if !thorough && !(pad == 119 || pad == 121) {
            continue;
        }
        let mut c = EpCfg::new(&cfg_name("c06", RoleK::Client, Some(Ver::V5), &format!("padded-properties={pad}")), RoleK::Client, Some(Ver::V5));
        c.auto_pub = true;
        c.window = 1;
        c.pub_pad = pad;
        c.alph = session_alph(true, 1);
        c.alph.pub_q = vec![1, 2];
        c.alph.als = vec![Al::No, Al::Reg(1), Al::Use(1)];
        c.connects = vec![ConnProf { ..ConnProf::basic(false) }];
        c.connacks = vec![AckProf { tam: Some(1), ..AckProf::basic(true) }];
        c.groups = vec!["c06"];
        v.push(c);
    }
    // v5: aliases and a tight Maximum Packet Size on resume
    for role in [RoleK::Client, RoleK::Server] {
        let mut c = EpCfg::new(&cfg_name("c06", role, Some(Ver::V5), "alias+mps"), role, Some(Ver::V5));
        c.auto_pub = true;
        c.window = 2;
        c.alph = session_alph(true, 2);
        c.alph.topics = 2;
        c.alph.als = vec![Al::No, Al::Reg(1), Al::Use(1)];
        c.alph.pub_q = vec![1, 2];
        let big = ConnProf { tam: None, mps: None, ..ConnProf::basic(false) };
        let small = ConnProf { mps: Some(12), tam: Some(2), ..ConnProf::basic(false) };
        let tam = ConnProf { tam: Some(2), ..ConnProf::basic(false) };
        c.connects = vec![ConnProf::basic(true), big, small, tam];
        c.connacks = vec![
            AckProf::basic(false),
            AckProf::basic(true),
            AckProf { tam: Some(2), ..AckProf::basic(true) },
            AckProf { tam: Some(2), mps: Some(12), ..AckProf::basic(true) },
        ];
        c.groups = vec!["c06"];
        v.push(c);
    }
    // v5: a session resumed under a smaller Maximum Packet Size than the one it was built under: of three stored
    // messages on topics of different length, those that no longer fit are dropped (identifier released),
    // every other one is retransmitted, in order - wherever in the store the oversize ones sit
    for role in [RoleK::Client, RoleK::Server] {
        if !thorough && role == RoleK::Server {
            continue;
        }
        let mut c = EpCfg::new(&cfg_name("c06", role, Some(Ver::V5), "resume under a smaller size limit"), role, Some(Ver::V5));
        c.auto_pub = true;
        c.window = 3;
        c.alph = session_alph(true, 3);
        c.alph.topics = 3;
        c.alph.als = vec![Al::No];
        c.alph.pub_q = vec![1];
        c.alph.peer_acks = vec![crate::refcodec::AckKind::Puback];
        c.connects = vec![ConnProf::basic(false), ConnProf { mps: Some(12), ..ConnProf::basic(false) }];
        c.connacks = vec![AckProf::basic(true), AckProf { mps: Some(12), ..AckProf::basic(true) }];
        c.groups = vec!["c06"];
        v.push(c);
    }
    v
}

pub fn run(rep: &mut Report) {
    let thorough = rep.thorough();
    for cfg in configs(thorough) {
        let lim = Limits::new(200, if thorough { 3_000_000 } else { 150_000 }, if thorough { 240.0 } else { 12.0 });
        run_cfg::<u16>(rep, cfg, lim, thorough);
    }
    // 32-bit packet identifiers (broker-cluster use): same rules, one client and one server configuration
    for (role, ver) in [(RoleK::Client, Ver::V5), (RoleK::Server, Ver::V4)] {
        let mut c = EpCfg::new(&cfg_name("c06-u32", role, Some(ver), "auto=false offline=true"), role, Some(ver));
        c.offline = true;
        c.window = 2;
        c.alph = session_alph(ver == Ver::V5, 2);
        c.alph.second_connack = true;
        c.alph.erase = true;
        c.alph.defer_pubrel = true;
        c.groups = vec!["c06"];
        run_cfg::<u32>(rep, c, Limits::new(200, 300_000, 30.0), false);
    }
    for f in ["c06.stored", "c06.pubrel-stored", "c06.resume-retransmit", "ack.matching", "ack.unexpected", "session.resumed", "session.not-present", "session.clean-start", "c06.erase", "pub.accepted-not-sent", "pub.refused", "c17.connack-on-established"] {
        rep.floor(f, 1);
    }
    rep.assume("application contract of DESIGN §2.4: ids come from acquire_packet_id and acquire+send is one step; mandatory replies (PUBREL after PUBREC in manual mode) are issued in the same application step; the server application sends CONNACK session-present exactly when it kept the session; CONNACK does not override the session expiry");
}

pub fn replay(config: &str, labels: &[String]) -> Result<Vec<String>, String> {
    replay_in::<u16>(configs(true).into_iter().chain(configs(false)).collect(), config, labels)
}
