//! C18 — v5.0 property placement and multiplicity follow the specification table (ENUM, full table).
use crate::bridge::{self, Built};
use crate::refcodec::{self as rc, AckKind, Loc, PTy, PVal, Prop, Ver, Will, AP};
use crate::report::{Report, Violation};
use crate::util::guarded;
use serde_json::json;

fn values(id: u8) -> Vec<PVal> {
    match rc::prop_type(id).unwrap() {
        PTy::U8 => vec![PVal::U8(1), PVal::U8(0), PVal::U8(2), PVal::U8(255)],
        PTy::U16 => vec![PVal::U16(10), PVal::U16(0), PVal::U16(1), PVal::U16(2), PVal::U16(65535)],
        PTy::U32 => vec![PVal::U32(10), PVal::U32(0), PVal::U32(1), PVal::U32(2), PVal::U32(u32::MAX)],
        PTy::Vbi => vec![PVal::Vbi(10), PVal::Vbi(0), PVal::Vbi(1), PVal::Vbi(127), PVal::Vbi(128), PVal::Vbi(268_435_455)],
        PTy::Str => vec![PVal::Str(b"x".to_vec()), PVal::Str(vec![])],
        PTy::Bin => vec![PVal::Bin(vec![0xff]), PVal::Bin(vec![])],
        PTy::Pair => vec![PVal::Pair(b"k".to_vec(), b"v".to_vec()), PVal::Pair(vec![], vec![])],
    }
}

/// the base packet of a location with `ps` placed in it
fn base(loc: Loc, ps: Vec<Prop>) -> AP {
    let ver = Ver::V5;
    match loc {
        Loc::Connect => AP::Connect { ver, clean: true, keep_alive: 0, client_id: b"c".to_vec(), will: None, user: None, pass: None, props: ps },
        Loc::Will => AP::Connect { ver, clean: true, keep_alive: 0, client_id: b"c".to_vec(), will: Some(Will { topic: b"w".to_vec(), payload: b"x".to_vec(), qos: 0, retain: false, props: ps }), user: None, pass: None, props: vec![] },
        Loc::Connack => AP::Connack { ver, sp: false, code: 0, props: ps },
        Loc::Publish => AP::Publish { ver, dup: false, qos: 1, retain: false, topic: b"a".to_vec(), pid: Some(1), props: ps, payload: b"p".to_vec() },
        Loc::Puback => AP::Ack { ver, kind: AckKind::Puback, pid: 1, code: Some(0), props: Some(ps) },
        Loc::Pubrec => AP::Ack { ver, kind: AckKind::Pubrec, pid: 1, code: Some(0), props: Some(ps) },
        Loc::Pubrel => AP::Ack { ver, kind: AckKind::Pubrel, pid: 1, code: Some(0), props: Some(ps) },
        Loc::Pubcomp => AP::Ack { ver, kind: AckKind::Pubcomp, pid: 1, code: Some(0), props: Some(ps) },
        Loc::Subscribe => AP::Subscribe { ver, pid: 1, props: ps, entries: vec![(b"f".to_vec(), 0)] },
        Loc::Suback => AP::Suback { ver, pid: 1, props: ps, codes: vec![0] },
        Loc::Unsubscribe => AP::Unsubscribe { ver, pid: 1, props: ps, filters: vec![b"f".to_vec()] },
        Loc::Unsuback => AP::Unsuback { ver, pid: 1, props: ps, codes: vec![0] },
        Loc::Disconnect => AP::Disconnect { ver, code: Some(0), props: Some(ps) },
        Loc::Auth => AP::Auth { code: Some(0), props: Some(ps) },
    }
}

pub fn run(rep: &mut Report) {
    let mut cells = 0u64;
    let mut accept_cells = 0u64;
    let mut reject_cells = 0u64;
    let mut viols: Vec<Violation> = vec![];
    let mut samples = vec![];
    for (id, name, _ty) in rc::PROP_TABLE.iter() {
        for loc in rc::ALL_LOCS {
            // (256 / 257 occurrences: where an occurrence counter narrower than the property block allows would wrap)
            for occ in [1usize, 2, 256, 257] {
                for (vi, val) in values(*id).into_iter().enumerate() {
                    if occ == 2 && vi > 1 {
                        continue; // multiplicity is judged with the typical and the first boundary value
                    }
                    if occ > 2 && vi > 0 {
                        continue;
                    }
                    cells += 1;
                    let p = Prop { id: *id, val: val.clone() };
                    let mut ps: Vec<Prop> = vec![];
                    // prerequisite: Authentication Data needs an Authentication Method next to it
                    if *id == 0x16 && rc::prop_allowed(0x15, loc) {
                        ps.push(Prop { id: 0x15, val: PVal::Str(b"m".to_vec()) });
                    }
                    for _ in 0..occ {
                        ps.push(p.clone());
                    }
                    let ap = base(loc, ps);
                    let spec = rc::prop_allowed(*id, loc) && (occ == 1 || rc::prop_may_repeat(*id, loc)) && rc::prop_value_legal(&p);
                    if spec {
                        accept_cells += 1;
                    } else {
                        reject_cells += 1;
                    }
                    let label = format!("{name} x{occ} value {val:?} in {loc:?}");
                    let r = guarded(|| {
                        let b = matches!(bridge::build::<u16>(&ap), Built::Ok(_));
                        let wire = rc::encode(&ap, 2);
                        let parsed = match rc::frame_one(&wire) {
                            rc::Framed::Frame { ty, flags, body, .. } => bridge::parse_body::<u16>(Ver::V5, ty, flags, &body).map(|r| r.is_ok()).unwrap_or(false),
                            _ => false,
                        };
                        (b, parsed)
                    });
                    let mk = |rule: &str, detail: String| Violation {
                        rule: rule.into(),
                        sig: format!("{rule}|{name}|{loc:?}|x{occ}|{}", if rc::prop_value_legal(&p) { "legal-value" } else { "illegal-value" }),
                        detail: format!("cell [{label}]: {detail}"),
                        config: "c18 placement table".into(),
                        history: vec![json!(label), json!(crate::util::hex(&rc::encode(&ap, 2)))],
                    };
                    match r {
                        Err(m) => viols.push(mk("c18.panic", format!("panic: {m}"))),
                        Ok((b, parsed)) => {
                            if samples.len() < 4 && cells % 211 == 0 {
                                samples.push(json!({"cell": label, "spec": spec, "builder": b, "parser": parsed}));
                            }
                            let why = if !rc::prop_allowed(*id, loc) { "the specification does not allow this property here" } else if occ >= 2 && !rc::prop_may_repeat(*id, loc) { "the specification allows it at most once here" } else if !rc::prop_value_legal(&p) { "the specification forbids this value" } else { "the specification allows it" };
                            if b != spec {
                                viols.push(mk("c18.builder", format!("the builder {} it but {why}", if b { "accepts" } else { "rejects" })));
                            }
                            if parsed != spec {
                                viols.push(mk("c18.parser", format!("the parser {} it but {why}", if parsed { "accepts" } else { "rejects" })));
                            }
                            if b != parsed && b == spec {
                                // (already reported as c18.parser) builder and parser disagree
                            } else if b != parsed {
                                viols.push(mk("c18.disagree", format!("builder ({b}) and parser ({parsed}) disagree")));
                            }
                        }
                    }
                }
            }
        }
    }
    // ---- multi-byte property identifiers: the identifier is a Variable Byte Integer, but every assigned value is
    // below 128. An identifier of 256 * k + id is no property of any packet: the block [0x80 | id, 2 * k, value]
    // must be refused wherever the property itself would be accepted.
    let mut multibyte_cells = 0u64;
    for (id, name, _ty) in rc::PROP_TABLE.iter() {
        for loc in rc::ALL_LOCS {
            if !rc::prop_allowed(*id, loc) {
                continue;
            }
            let val = values(*id).into_iter().next().unwrap();
            let p = Prop { id: *id, val };
            if !rc::prop_value_legal(&p) {
                continue;
            }
            let mut ps: Vec<Prop> = vec![];
            if *id == 0x16 {
                ps.push(Prop { id: 0x15, val: PVal::Str(b"m".to_vec()) });
            }
            ps.push(p.clone());
            let ap = base(loc, ps.clone());
            let wire = rc::encode(&ap, 2);
            let rc::Framed::Frame { ty, flags, body, .. } = rc::frame_one(&wire) else { continue };
            let blk = rc::enc_props(&ps);
            let Some(at) = body.windows(blk.len()).position(|w| w == &blk[..]) else { continue };
            for k in [1u8, 2] {
                multibyte_cells += 1;
                let mut inner: Vec<u8> = vec![];
                for q in &ps {
                    let e = rc::enc_prop(q);
                    if q.id == *id {
                        inner.extend_from_slice(&[0x80 | *id, 2 * k]);
                        inner.extend_from_slice(&e[1..]);
                    } else {
                        inner.extend_from_slice(&e);
                    }
                }
                let mut nb = body[..at].to_vec();
                nb.extend_from_slice(&rc::enc_vbi(inner.len() as u32));
                nb.extend_from_slice(&inner);
                nb.extend_from_slice(&body[at + blk.len()..]);
                let label = format!("{name} with identifier {} (bytes {:02x} {:02x}) in {loc:?}", (*id as u32) + 128 * (2 * k as u32), 0x80 | *id, 2 * k);
                let r = guarded(|| bridge::parse_body::<u16>(Ver::V5, ty, flags, &nb).map(|r| r.is_ok()).unwrap_or(false));
                match r {
                    Err(m) => viols.push(Violation { rule: "c18.panic".into(), sig: format!("c18.panic|{name}|{loc:?}|multibyte-id"), detail: format!("cell [{label}]: panic: {m}"), config: "c18 placement table".into(), history: vec![json!(label), json!(crate::util::hex(&nb))] }),
                    Ok(true) => viols.push(Violation { rule: "c18.parser-multibyte-id".into(), sig: format!("c18.parser-multibyte-id|{name}|{loc:?}"), detail: format!("cell [{label}]: the parser accepts a property identifier that is assigned to no property (it reads it as {name})"), config: "c18 placement table".into(), history: vec![json!(label), json!(crate::util::hex(&nb))] }),
                    Ok(false) => {}
                }
            }
        }
    }
    rep.count("c18.multibyte-id-cells", multibyte_cells);
    // ---- order independence: the position of a property in the block carries no meaning. Every ordered
    // pair of distinct kinds the specification allows in a location is accepted by builder and parser
    // (Authentication Data next to Authentication Method in both orders; any other pair containing
    // Authentication Data gets the Method appended behind it), and a disallowed kind is refused whether it
    // stands before or behind an allowed one.
    let mut pair_cells = 0u64;
    for loc in rc::ALL_LOCS {
        let kinds: Vec<(u8, &str)> = rc::PROP_TABLE.iter().map(|(id, name, _)| (*id, *name)).collect();
        let user = Prop { id: 0x26, val: PVal::Pair(b"k".to_vec(), b"v".to_vec()) };
        for (id1, n1) in &kinds {
            for (id2, n2) in &kinds {
                if id1 == id2 {
                    continue;
                }
                let a1 = rc::prop_allowed(*id1, loc);
                let a2 = rc::prop_allowed(*id2, loc);
                // both allowed: any order; exactly one disallowed: only together with User Property
                if !(a1 && a2) && !((*id1 == 0x26 && a1) || (*id2 == 0x26 && a2)) {
                    continue;
                }
                if !a1 && !a2 {
                    continue;
                }
                pair_cells += 1;
                let p1 = Prop { id: *id1, val: values(*id1)[0].clone() };
                let p2 = Prop { id: *id2, val: values(*id2)[0].clone() };
                let mut ps = vec![p1, p2];
                if (*id1 == 0x16 || *id2 == 0x16) && *id1 != 0x15 && *id2 != 0x15 && rc::prop_allowed(0x15, loc) {
                    ps.push(Prop { id: 0x15, val: PVal::Str(b"m".to_vec()) });
                }
                let _ = &user;
                let spec = a1 && a2;
                let ap = base(loc, ps);
                let label = format!("{n1} then {n2} in {loc:?}");
                let r = guarded(|| {
                    let b = matches!(bridge::build::<u16>(&ap), Built::Ok(_));
                    let wire = rc::encode(&ap, 2);
                    let parsed = match rc::frame_one(&wire) {
                        rc::Framed::Frame { ty, flags, body, .. } => bridge::parse_body::<u16>(Ver::V5, ty, flags, &body).map(|r| r.is_ok()).unwrap_or(false),
                        _ => false,
                    };
                    (b, parsed)
                });
                let mk = |rule: &str, detail: String| Violation {
                    rule: rule.into(),
                    sig: format!("{rule}|{n1}+{n2}|{loc:?}"),
                    detail: format!("cell [{label}]: {detail}"),
                    config: "c18 placement table (ordered pairs)".into(),
                    history: vec![json!(label), json!(crate::util::hex(&rc::encode(&ap, 2)))],
                };
                match r {
                    Err(m) => viols.push(mk("c18.panic", format!("panic: {m}"))),
                    Ok((b, parsed)) => {
                        let why = if spec { "the specification allows both properties here, in any order" } else { "one of the two properties is not allowed here" };
                        if b != spec {
                            viols.push(mk("c18.builder-order", format!("the builder {} the pair but {why}", if b { "accepts" } else { "rejects" })));
                        }
                        if parsed != spec {
                            viols.push(mk("c18.parser-order", format!("the parser {} the pair but {why}", if parsed { "accepts" } else { "rejects" })));
                        }
                    }
                }
            }
        }
    }
    // ---- a second occurrence is refused wherever it stands: [X, Y, X] for every at-most-once kind X and every
    // other kind Y allowed in the location (duplicate detection that only looks at neighbours misses it)
    let mut triple_cells = 0u64;
    for loc in rc::ALL_LOCS {
        let kinds: Vec<(u8, &str)> = rc::PROP_TABLE.iter().map(|(id, name, _)| (*id, *name)).collect();
        for (x, nx) in &kinds {
            if !rc::prop_allowed(*x, loc) || rc::prop_may_repeat(*x, loc) {
                continue;
            }
            for (y, ny) in &kinds {
                if x == y || !rc::prop_allowed(*y, loc) {
                    continue;
                }
                triple_cells += 1;
                let vx = values(*x);
                let mut ps = vec![Prop { id: *x, val: vx[0].clone() }, Prop { id: *y, val: values(*y)[0].clone() }, Prop { id: *x, val: vx[0].clone() }];
                if (*x == 0x16 || *y == 0x16) && *x != 0x15 && *y != 0x15 && rc::prop_allowed(0x15, loc) {
                    ps.insert(0, Prop { id: 0x15, val: PVal::Str(b"m".to_vec()) });
                }
                let ap = base(loc, ps);
                let label = format!("{nx}, {ny}, {nx} in {loc:?}");
                let r = guarded(|| {
                    let b = matches!(bridge::build::<u16>(&ap), Built::Ok(_));
                    let wire = rc::encode(&ap, 2);
                    let parsed = match rc::frame_one(&wire) {
                        rc::Framed::Frame { ty, flags, body, .. } => bridge::parse_body::<u16>(Ver::V5, ty, flags, &body).map(|r| r.is_ok()).unwrap_or(false),
                        _ => false,
                    };
                    (b, parsed)
                });
                let mk = |rule: &str, detail: String| Violation {
                    rule: rule.into(),
                    sig: format!("{rule}|{nx}|{loc:?}"),
                    detail: format!("cell [{label}]: {detail}"),
                    config: "c18 placement table (separated duplicates)".into(),
                    history: vec![json!(label), json!(crate::util::hex(&rc::encode(&ap, 2)))],
                };
                match r {
                    Err(m) => viols.push(mk("c18.panic", format!("panic: {m}"))),
                    Ok((b, parsed)) => {
                        if b {
                            viols.push(mk("c18.builder-separated-duplicate", format!("the builder accepts a second {nx} (the specification allows it at most once here) when another property stands between the two")));
                        }
                        if parsed {
                            viols.push(mk("c18.parser-separated-duplicate", format!("the parser accepts a second {nx} (the specification allows it at most once here) when another property stands between the two")));
                        }
                    }
                }
            }
        }
    }
    rep.count("c18.separated-duplicates", triple_cells);
    rep.floor("c18.separated-duplicates", 400);
    rep.count("c18.ordered-pairs", pair_cells);
    rep.floor("c18.ordered-pairs", 1000);
    for v in viols {
        rep.violation(v);
    }
    for s in samples {
        rep.sample(s);
    }
    rep.set_cov("evaluations", json!((cells + pair_cells + triple_cells) * 2));
    rep.set_cov("distinct_nontrivial", json!(cells + pair_cells + triple_cells));
    rep.set_cov("cells_spec_accept", json!(accept_cells));
    rep.set_cov("cells_spec_reject", json!(reject_cells));
    rep.set_cov("exhaustive", json!(true));
    rep.set_cov("rule", json!("27 property kinds x the 14 property-carrying locations of MQTT v5.0 x occurrences {1,2} x {typical value, every boundary the specification singles out}; each cell evaluated on the builder path and on the parser path (reference-encoded packet); plus every ordered pair of distinct allowed kinds per location (order independence) and every disallowed kind before / behind a User Property; plus [X, Y, X] for every at-most-once kind X and every other allowed kind Y; distinct_nontrivial = cells + ordered pairs + triples"));
    rep.count("c18.cells-accept", accept_cells);
    rep.count("c18.cells-reject", reject_cells);
    rep.floor("c18.cells-accept", 100);
    rep.floor("c18.cells-reject", 500);
    rep.assume("the property text says 16 locations; the specification and the code have 14 property-carrying locations and all are enumerated. Authentication Data cells carry an Authentication Method as prerequisite; acknowledgement / DISCONNECT / AUTH cells sit on a base with reason code 0");
}

pub fn replay(v: &serde_json::Value) -> Result<Vec<String>, String> {
    Ok(vec![format!("cell: {}", v["history"][0]), format!("reference encoding: {}", v["history"][1]), format!("detail: {}", v["detail"])])
}
