//! C10 (reuse) and C16 (restore): differential checks from every reachable state.
use super::epc::*;
use crate::bridge::{self, Pid};
use crate::conn::{ConnBox, Ev, RoleK, Tk};
use crate::ep::*;
use crate::explore::Limits;
use crate::refcodec::{self as rc, AckKind, Ver, AP};
use crate::report::{Report, Violation};
use crate::util::{debug_diff, guarded};
use serde_json::json;

fn short(l: &[Ev]) -> Vec<String> {
    l.iter().map(|e| e.short()).collect()
}

/// one step of a scripted interaction: (label, canonical events)
type Trace = Vec<(String, Vec<Ev>)>;

fn send<P: Pid>(c: &mut ConnBox<P>, t: &mut Trace, ap: AP) {
    let l = format!("send {}", crate::conn::ap_short(&ap));
    match bridge::build::<P>(&ap).ok() {
        Some(p) => {
            let e = c.send(p);
            t.push((l, e));
        }
        None => t.push((l, vec![])),
    }
}
fn recv<P: Pid>(c: &mut ConnBox<P>, t: &mut Trace, ap: AP) {
    let l = format!("recv {}", crate::conn::ap_short(&ap));
    let (ls, _) = c.recv_all(&rc::encode(&ap, P::W));
    t.push((l, ls.into_iter().flatten().collect()));
}

/// new-session handshake `which` for a connection acting as client / server
fn handshake<P: Pid>(c: &mut ConnBox<P>, ver: Ver, as_client: bool, which: usize) -> Trace {
    let mut t = vec![];
    let (cp, ap) = match which {
        0 => (ConnProf::basic(true), AckProf::basic(false)),
        1 => (ConnProf { ka: 1, rm: Some(2), tam: Some(2), mps: Some(64), sei: None, clean: true }, AckProf { rm: Some(2), tam: Some(2), mps: Some(64), ska: None, ..AckProf::basic(false) }),
        // persistent CONNECT answered with "session not present"
        2 => (ConnProf::basic(false), AckProf::basic(false)),
        // v5.0: Clean Start 0 without a Session Expiry Interval, answered with "session not present"
        _ => (ConnProf::resume_no_expiry(), AckProf::basic(false)),
    };
    if which == UNSOLICITED {
        // the peer's first bytes are a CONNACK ("session not present") although no CONNECT was sent: the
        // library processes it (two tests of the repository rely on that) - then like a fresh object does
        recv(c, &mut t, AckProf::basic(false).ap(ver));
    } else if as_client {
        send(c, &mut t, cp.ap(ver));
        recv(c, &mut t, ap.ap(ver));
    } else {
        recv(c, &mut t, cp.ap(ver));
        send(c, &mut t, ap.ap(ver));
    }
    t
}
const UNSOLICITED: usize = 9;

/// fixed probe script run after the handshake: the trace net that catches state the snapshot
/// might not list
fn probe_script<P: Pid>(c: &mut ConnBox<P>, ver: Ver, as_client: bool) -> Trace {
    let mut t = vec![];
    let publ = |q: u8, id: Option<u32>| AP::Publish { ver, dup: false, qos: q, retain: false, topic: b"a".to_vec(), pid: id, props: vec![], payload: b"p".to_vec() };
    let ack = |k: AckKind, id: u32| AP::Ack { ver, kind: k, pid: id, code: None, props: None };
    // publish QoS1 + ack
    let id = c.acquire().unwrap_or(0);
    t.push((format!("acquire -> {id}"), vec![]));
    send(c, &mut t, publ(1, Some(id)));
    recv(c, &mut t, ack(AckKind::Puback, id));
    // inbound QoS2 + PUBREL
    recv(c, &mut t, publ(2, Some(1)));
    send(c, &mut t, ack(AckKind::Pubrec, 1));
    recv(c, &mut t, ack(AckKind::Pubrel, 1));
    send(c, &mut t, ack(AckKind::Pubcomp, 1));
    if as_client {
        let id = c.acquire().unwrap_or(0);
        send(c, &mut t, AP::Subscribe { ver, pid: id, props: vec![], entries: vec![(b"f".to_vec(), 0)] });
        recv(c, &mut t, AP::Suback { ver, pid: id, props: vec![], codes: vec![0] });
        send(c, &mut t, AP::Pingreq { ver });
        recv(c, &mut t, AP::Pingresp { ver });
    } else {
        recv(c, &mut t, AP::Subscribe { ver, pid: 5, props: vec![], entries: vec![(b"f".to_vec(), 0)] });
        send(c, &mut t, AP::Suback { ver, pid: 5, props: vec![], codes: vec![0] });
        recv(c, &mut t, AP::Pingreq { ver });
    }
    // 3-byte partial frame + rest
    let f = rc::encode(&publ(0, None), P::W);
    let (l1, _) = c.recv_all(&f[..3]);
    t.push(("recv first 3 bytes of PUBLISH q0".into(), l1.into_iter().flatten().collect()));
    let (l2, _) = c.recv_all(&f[3..]);
    t.push(("recv rest".into(), l2.into_iter().flatten().collect()));
    // timer expiries (each on the object as it is then)
    for k in Tk::ALL {
        let e = c.notify_timer_fired(k);
        t.push((format!("notify_timer_fired({k:?})"), e));
    }
    t
}

fn sides_of(role: RoleK) -> Vec<bool> {
    match role {
        RoleK::Client => vec![true],
        RoleK::Server => vec![false],
        RoleK::Any => vec![true, false],
    }
}

fn first_diff(a: &Trace, b: &Trace) -> Option<(String, Vec<String>, Vec<String>)> {
    for (x, y) in a.iter().zip(b.iter()) {
        if x != y {
            return Some((x.0.clone(), short(&x.1), short(&y.1)));
        }
    }
    if a.len() != b.len() {
        return Some(("(trace length)".into(), vec![], vec![]));
    }
    None
}

// ------------------------------------------------------------------------------------------
// C10

pub fn c10_configs(thorough: bool) -> Vec<EpCfg> {
    let mut v = vec![];
    for (role, ver) in [
        (RoleK::Client, Some(Ver::V4)),
        (RoleK::Client, Some(Ver::V5)),
        (RoleK::Server, Some(Ver::V4)),
        (RoleK::Server, Some(Ver::V5)),
        (RoleK::Server, None),
        (RoleK::Any, Some(Ver::V4)),
        (RoleK::Any, Some(Ver::V5)),
    ] {
        for (auto, offline) in [(true, false), (false, false), (true, true)] {
            if !thorough && !auto && role != RoleK::Client {
                continue;
            }
            if offline && (ver.is_none() || (!thorough && role != RoleK::Client)) {
                continue;
            }
            let v5 = ver == Some(Ver::V5);
            let mut c = EpCfg::new(&cfg_name("c10", role, ver, &format!("auto={auto}{}", if offline { " offline" } else { "" })), role, ver);
            c.offline = offline;
            c.auto_pub = auto;
            c.auto_ping = auto;
            c.pingresp_to = 5;
            c.window = 2;
            c.max_timer_fires = 1;
            c.alph = Alph {
                pub_q: vec![1, 2],
                topics: 1,
                als: if v5 { vec![Al::No, Al::Reg(1)] } else { vec![Al::No] },
                sub: true,
                unsub: thorough,
                ping: true,
                disconnect: true,
                peer_pub_q: vec![2],
                peer_ids: vec![1],
                peer_als: if v5 { vec![Al::No, Al::Reg(1)] } else { vec![] },
                peer_acks: vec![AckKind::Puback, AckKind::Pubrec],
                peer_ack_ids: vec![1],
                peer_sub: thorough,
                peer_ping: true,
                peer_disconnect: true,
                timers: true,
                spontaneous_close: true,
                partial: true,
                pub_any_status: true,
                set_interval: vec![Some(3)],
                // manual responses: the PUBREL may be sent later - or never, when the connection closes first
                defer_pubrel: !auto,
                ..Alph::default()
            };
            // limits of the first connection: generous and tiny (smaller than the next CONNECT / CONNACK)
            c.connects = vec![ConnProf { ka: 10, ..ConnProf::basic(true) }, ConnProf { ka: 10, rm: Some(1), tam: Some(1), mps: Some(40), ..ConnProf::basic(false) }, ConnProf { mps: Some(10), ..ConnProf::basic(true) }];
            c.connacks = vec![AckProf::basic(false), AckProf { rm: Some(1), tam: Some(1), mps: Some(40), ska: Some(7), ..AckProf::basic(true) }, AckProf { ok: false, ..AckProf::basic(false) }, AckProf { mps: Some(10), ..AckProf::basic(false) }];
            c.groups = vec![];
            v.push(c);
        }
    }
    v
}

pub fn c10(rep: &mut Report) {
    let thorough = rep.thorough();
    let mut compared = 0u64;
    let mut reused_states = 0u64;
    for cfg in c10_configs(thorough) {
        let lim = if thorough { Limits::new(60, 120_000, 120.0) } else { Limits::new(40, 6_000, 5.0) };
        let name = cfg.name.clone();
        let (_st, kept, hists) = run_keep::<u16>(rep, cfg, lim);
        let results: Vec<(u64, Vec<Violation>)> = crate::util::par_map(kept.len(), |i| {
            let w = &kept[i];
            let mut out = vec![];
            let mut n = 0u64;
            // every close path ends in a state with the transport reported closed; the initial
            // state is the trivial member
            if !(w.m.st == St::Disc && !w.m.link_up && !w.m.close_pending) {
                return (0, out);
            }
            let ver = match w.m.ver.or(w.cfg.ver) {
                Some(v) => v,
                None => return (0, out),
            };
            for as_client in sides_of(w.cfg.role) {
                for which in (0..if ver == Ver::V5 { 4 } else { 3 }).chain(if as_client { Some(UNSOLICITED) } else { None }) {
                    n += 1;
                    let r = guarded(|| {
                        let mut a = w.conn.clone();
                        let mut b = fresh_conn::<u16>(&w.cfg, Some(ver));
                        // the interval override is configuration: the fresh object gets the same setting
                        if let Some(d) = w.m.user_interval {
                            let _ = b.set_pingreq_send_interval(Some(d));
                        }
                        // with offline publishing on, a publish made between the connections is part of the
                        // comparison (same answer, same effect on the next connection)
                        let mut pre_a: Trace = vec![];
                        let mut pre_b: Trace = vec![];
                        // an object that holds no session (the last one ended with its connection, or no attempt was
                        // ever established) holds nothing of one: store, handled identifiers, identifiers in use
                        if !w.m.persistent && !w.m.keep_mark && !w.cfg.offline {
                            for (c, t) in [(&a, &mut pre_a), (&b, &mut pre_b)] {
                                let sn = c.snap();
                                let in_use = crate::conn::in_use_ids(&sn.pid_free, 65535).len() as u64;
                                t.push(("session state held while disconnected (stored packets, handled ids, ids in use, awaited acks)".into(), vec![Ev::TimerReset(Tk::PingreqSend, sn.store.len() as u64), Ev::TimerReset(Tk::PingreqSend, sn.qos2_publish_handled.len() as u64), Ev::TimerReset(Tk::PingreqSend, in_use), Ev::TimerReset(Tk::PingreqSend, (sn.pid_puback.len() + sn.pid_pubrec.len() + sn.pid_pubcomp.len()) as u64)]));
                            }
                        }
                        // between the connections no alias binding exists any more (v5.0)
                        if ver == Ver::V5 {
                            for (c, t) in [(&a, &mut pre_a), (&b, &mut pre_b)] {
                                for al in [1u16, 2] {
                                    let ap = AP::Publish { ver, dup: false, qos: 1, retain: false, topic: vec![], pid: Some(1), props: vec![crate::refcodec::Prop { id: 0x23, val: crate::refcodec::PVal::U16(al) }], payload: b"p".to_vec() };
                                    let r = c.regulate_for_store(&ap);
                                    t.push((format!("regulate_for_store(empty topic + alias {al})"), vec![if r.is_ok() { Ev::Released(0) } else { Ev::Close }]));
                                }
                            }
                        }
                        // the first bytes on the next transport need not be a CONNECT / CONNACK exchange: whatever the
                        // peer sends ahead of it is judged like on a fresh object (no limit, no timer of the
                        // closed connection)
                        for (c, t) in [(&mut a, &mut pre_a), (&mut b, &mut pre_b)] {
                            let mut c2 = c.clone();
                            recv(&mut c2, t, if as_client { AP::Pingresp { ver } } else { AP::Pingreq { ver } });
                            let mut c3 = c.clone();
                            recv(&mut c3, t, AP::Publish { ver, dup: false, qos: 1, retain: false, topic: b"a".to_vec(), pid: Some(7), props: vec![], payload: b"p".to_vec() });
                            let mut c4 = c.clone();
                            recv(&mut c4, t, AP::Publish { ver, dup: false, qos: 0, retain: false, topic: b"a".to_vec(), pid: None, props: vec![], payload: b"p".to_vec() });
                        }
                        if w.cfg.offline && ver == Ver::V5 && w.m.ids.is_empty() {
                            for (c, t) in [(&mut a, &mut pre_a), (&mut b, &mut pre_b)] {
                                let id = c.acquire().unwrap_or(0);
                                t.push((format!("acquire -> {id}"), vec![]));
                                send(c, t, AP::Publish { ver, dup: false, qos: 1, retain: false, topic: vec![], pid: Some(id), props: vec![crate::refcodec::Prop { id: 0x23, val: crate::refcodec::PVal::U16(1) }], payload: b"p".to_vec() });
                            }
                        }
                        if w.cfg.offline && w.m.ids.is_empty() {
                            for (c, t) in [(&mut a, &mut pre_a), (&mut b, &mut pre_b)] {
                                let id = c.acquire().unwrap_or(0);
                                t.push((format!("acquire -> {id}"), vec![]));
                                send(c, t, AP::Publish { ver, dup: false, qos: 1, retain: false, topic: b"a".to_vec(), pid: Some(id), props: vec![], payload: b"p".to_vec() });
                            }
                        }
                        let mut ta = handshake(&mut a, ver, as_client, which);
                        let mut tb = handshake(&mut b, ver, as_client, which);
                        pre_a.append(&mut ta);
                        pre_b.append(&mut tb);
                        let (ta, tb) = (pre_a, pre_b);
                        let sa = a.snap();
                        let sb = b.snap();
                        let pa = probe_script(&mut a, ver, as_client);
                        let pb = probe_script(&mut b, ver, as_client);
                        (ta, tb, sa, sb, pa, pb)
                    });
                    let hs = format!("{} handshake #{which}", if as_client { "client" } else { "server" });
                    let hist: Vec<serde_json::Value> = hists[i].iter().map(|a| json!(format!("{a:?}"))).chain(std::iter::once(json!(format!("then: {hs} on the reused object vs a fresh object")))).collect();
                    match r {
                        Err(m) => out.push(Violation { rule: "c10.panic".into(), sig: format!("c10.panic|{}", crate::util::panic_sig(&m)), detail: format!("[{name}] panic during the second connection: {m}"), config: name.clone(), history: hist }),
                        Ok((ta, tb, sa, sb, pa, pb)) => {
                            if let Some((step, x, y)) = first_diff(&ta, &tb) {
                                out.push(Violation { rule: "c10.handshake-events".into(), sig: format!("c10.handshake-events|{hs}|{}", step.split(' ').take(2).collect::<Vec<_>>().join(" ")), detail: format!("[{name}] new-session {hs}: at '{step}' the reused object returns {x:?}, a fresh object {y:?}"), config: name.clone(), history: hist.clone() });
                            } else if sa != sb {
                                let (names, text) = debug_diff(&sa, &sb);
                                out.push(Violation { rule: "c10.state".into(), sig: format!("c10.state|{}|{}", if as_client { "client" } else { "server" }, names.join("+")), detail: format!("[{name}] after the new-session {hs} the reused object differs from a fresh one in {names:?}: {text}"), config: name.clone(), history: hist.clone() });
                            } else if let Some((step, x, y)) = first_diff(&pa, &pb) {
                                out.push(Violation { rule: "c10.probe-events".into(), sig: format!("c10.probe-events|{hs}|{}", step.split(' ').take(2).collect::<Vec<_>>().join(" ")), detail: format!("[{name}] probe script after {hs}: at '{step}' reused {x:?} vs fresh {y:?}"), config: name.clone(), history: hist.clone() });
                            }
                        }
                    }
                }
            }
            // resumed session: connection-scoped leftovers must not influence the next connection either.
            // Partner: a fresh object that is given exactly the session state (export of store + handled
            // set) - it has no connection-scoped history at all. Both resume with own Receive Maximum 1.
            if w.m.persistent && w.m.ids.values().all(|o| matches!(o, Owner::Pub1 | Owner::Pub2 | Owner::Rel)) {
                for as_client in sides_of(w.cfg.role) {
                    n += 1;
                    let x_store = w.conn.stored();
                    let x_handled = w.conn.handled();
                    let r = guarded(|| {
                        let mut a = w.conn.clone();
                        let mut b = fresh_conn::<u16>(&w.cfg, Some(ver));
                        if let Some(d) = w.m.user_interval {
                            let _ = b.set_pingreq_send_interval(Some(d));
                        }
                        b.restore_packets(x_store.clone());
                        b.restore_handled(&x_handled);
                        let ta = resume2(&mut a, ver, as_client, None, if ver == Ver::V5 { Some(1) } else { None });
                        let tb = resume2(&mut b, ver, as_client, None, if ver == Ver::V5 { Some(1) } else { None });
                        let (sa, sb) = (a.snap(), b.snap());
                        // the peer retransmits what it may have in flight: QoS 1 / 2 PUBLISH id 1 with DUP
                        let mut pa: Trace = vec![];
                        let mut pb: Trace = vec![];
                        for q in [2u8, 1] {
                            let ap = AP::Publish { ver, dup: true, qos: q, retain: false, topic: b"a".to_vec(), pid: Some(1), props: vec![], payload: b"p".to_vec() };
                            let mut a2 = a.clone();
                            let mut b2 = b.clone();
                            recv(&mut a2, &mut pa, ap.clone());
                            recv(&mut b2, &mut pb, ap);
                        }
                        (ta, tb, sa, sb, pa, pb)
                    });
                    let hs = format!("{} resume (own Receive Maximum 1)", if as_client { "client" } else { "server" });
                    let hist: Vec<serde_json::Value> = hists[i].iter().map(|a| json!(format!("{a:?}"))).chain(std::iter::once(json!(format!("then: {hs} on the reused object vs a fresh object restored from its export")))).collect();
                    match r {
                        Err(m) => out.push(Violation { rule: "c10.panic".into(), sig: format!("c10.panic|{}", crate::util::panic_sig(&m)), detail: format!("[{name}] panic during the resumed connection: {m}"), config: name.clone(), history: hist }),
                        Ok((ta, tb, sa, sb, pa, pb)) => {
                            if let Some((step, x, y)) = first_diff(&ta, &tb) {
                                out.push(Violation { rule: "c10.resume-events".into(), sig: format!("c10.resume-events|{hs}|{}", step.split(' ').take(2).collect::<Vec<_>>().join(" ")), detail: format!("[{name}] {hs}: at '{step}' the reused object returns {x:?}, a fresh object holding the same session {y:?}"), config: name.clone(), history: hist.clone() });
                            } else if sa != sb {
                                let (names, text) = debug_diff(&sa, &sb);
                                out.push(Violation { rule: "c10.resume-state".into(), sig: format!("c10.resume-state|{}|{}", if as_client { "client" } else { "server" }, names.join("+")), detail: format!("[{name}] after the {hs} the reused object differs from a fresh object holding the same session in {names:?}: {text}"), config: name.clone(), history: hist.clone() });
                            } else if let Some((step, x, y)) = first_diff(&pa, &pb) {
                                out.push(Violation { rule: "c10.resume-probe".into(), sig: format!("c10.resume-probe|{hs}|{}", step.split(' ').take(3).collect::<Vec<_>>().join(" ")), detail: format!("[{name}] after the {hs}: at '{step}' reused {x:?} vs fresh-with-session {y:?}"), config: name.clone(), history: hist.clone() });
                            }
                        }
                    }
                }
            }
            (n, out)
        });
        for (n, vs) in results {
            if n > 0 {
                reused_states += 1;
            }
            compared += n;
            for v in vs {
                rep.violation(v);
            }
        }
    }
    // scripted: the connection is given up locally (DISCONNECT handed to send()), but bytes of the peer that were
    // already on their way are still fed to recv() before the transport is reported closed. Whatever they set up
    // (a receive timer re-armed, an identifier noted) ends with notify_closed(): the reused object equals a fresh one
    let mut scripted = 0u64;
    for cfg in c10_configs(false) {
        let ver = match cfg.ver {
            Some(v) => v,
            None => continue,
        };
        if cfg.offline {
            continue;
        }
        let name = cfg.name.clone();
        for as_client in sides_of(cfg.role) {
            for late in 0..4usize {
                for which in 0..2usize {
                    scripted += 1;
                    let late_ap = match late {
                        0 => {
                            if as_client {
                                AP::Pingresp { ver }
                            } else {
                                AP::Pingreq { ver }
                            }
                        }
                        1 => AP::Publish { ver, dup: false, qos: 0, retain: false, topic: b"a".to_vec(), pid: None, props: vec![], payload: b"p".to_vec() },
                        2 => AP::Publish { ver, dup: false, qos: 1, retain: false, topic: b"a".to_vec(), pid: Some(7), props: vec![], payload: b"p".to_vec() },
                        _ => AP::Publish { ver, dup: false, qos: 2, retain: false, topic: b"a".to_vec(), pid: Some(7), props: vec![], payload: b"p".to_vec() },
                    };
                    let hist: Vec<serde_json::Value> = vec![json!(format!("scripted: {} connection with keep alive 10, DISCONNECT sent, then {late_ap:?} received, notify_closed(); then handshake #{which} on the reused object vs a fresh object", if as_client { "client" } else { "server" }))];
                    let r = guarded(|| {
                        let mut a = fresh_conn::<u16>(&cfg, Some(ver));
                        let mut t0: Trace = vec![];
                        let cp = ConnProf { ka: 10, ..ConnProf::basic(true) };
                        if as_client {
                            send(&mut a, &mut t0, cp.ap(ver));
                            recv(&mut a, &mut t0, AckProf::basic(false).ap(ver));
                        } else {
                            recv(&mut a, &mut t0, cp.ap(ver));
                            send(&mut a, &mut t0, AckProf::basic(false).ap(ver));
                        }
                        send(&mut a, &mut t0, AP::Disconnect { ver, code: None, props: None });
                        recv(&mut a, &mut t0, late_ap.clone());
                        let _ = a.notify_closed();
                        let mut b = fresh_conn::<u16>(&cfg, Some(ver));
                        let ta = handshake(&mut a, ver, as_client, which);
                        let tb = handshake(&mut b, ver, as_client, which);
                        let sa = a.snap();
                        let sb = b.snap();
                        let pa = probe_script(&mut a, ver, as_client);
                        let pb = probe_script(&mut b, ver, as_client);
                        (ta, tb, sa, sb, pa, pb)
                    });
                    let side = if as_client { "client" } else { "server" };
                    match r {
                        Err(m) => rep.violation(Violation { rule: "c10.panic".into(), sig: format!("c10.panic|{}", crate::util::panic_sig(&m)), detail: format!("[{name}] panic in the late-bytes script: {m}"), config: name.clone(), history: hist }),
                        Ok((ta, tb, sa, sb, pa, pb)) => {
                            if let Some((step, x, y)) = first_diff(&ta, &tb) {
                                rep.violation(Violation { rule: "c10.handshake-events".into(), sig: format!("c10.handshake-events|late bytes|{side}|{}", step.split(' ').take(2).collect::<Vec<_>>().join(" ")), detail: format!("[{name}] bytes received after the own DISCONNECT: at '{step}' the reused object returns {x:?}, a fresh object {y:?}"), config: name.clone(), history: hist.clone() });
                            } else if sa != sb {
                                let (names, text) = debug_diff(&sa, &sb);
                                rep.violation(Violation { rule: "c10.state".into(), sig: format!("c10.state|late bytes|{side}|{}", names.join("+")), detail: format!("[{name}] bytes received after the own DISCONNECT: after the next handshake the reused object differs from a fresh one in {names:?}: {text}"), config: name.clone(), history: hist.clone() });
                            } else if let Some((step, x, y)) = first_diff(&pa, &pb) {
                                rep.violation(Violation { rule: "c10.probe-events".into(), sig: format!("c10.probe-events|late bytes|{side}|{}", step.split(' ').take(2).collect::<Vec<_>>().join(" ")), detail: format!("[{name}] bytes received after the own DISCONNECT: probe script at '{step}' reused {x:?} vs fresh {y:?}"), config: name.clone(), history: hist.clone() });
                            }
                        }
                    }
                }
            }
        }
    }
    rep.count("c10.late-bytes-scripts", scripted);
    rep.floor("c10.late-bytes-scripts", 16);
    compared += scripted;
    rep.count("c10.reuse-comparisons", compared);
    rep.count("c10.closed-states-compared", reused_states);
    rep.add_cov("traces_validated_against_impl", compared);
    rep.floor("c10.reuse-comparisons", 100);
    rep.floor("closed", 1);
    rep.assume("the interval override of set_pingreq_send_interval and the option setters are configuration ('same options'); the comparison partner of an undetermined-version object is a fresh object of the adopted version; states are compared after every close path of the alphabet (spontaneous close, DISCONNECT sent / received, error close, timeout close, refused CONNACK)");
}

// ------------------------------------------------------------------------------------------
// C16

pub fn c16_configs(thorough: bool) -> Vec<EpCfg> {
    let mut v = vec![];
    for role in [RoleK::Client, RoleK::Server, RoleK::Any] {
        for ver in [Ver::V4, Ver::V5] {
            for auto in [true, false] {
                if !thorough && role == RoleK::Any && !auto {
                    continue;
                }
                let mut c = EpCfg::new(&cfg_name("c16", role, Some(ver), &format!("auto={auto}")), role, Some(ver));
                c.auto_pub = auto;
                c.window = if thorough { 3 } else { 2 };
                c.alph = session_alph(ver == Ver::V5, if thorough { 3 } else { 2 });
                c.alph.peer_pub_q = vec![2];
                c.alph.peer_ids = vec![1, 2];
                c.alph.peer_dup = true;
                c.alph.peer_acks = vec![AckKind::Puback, AckKind::Pubrec, AckKind::Pubcomp, AckKind::Pubrel];
                c.alph.reply_err = true;
                c.alph.defer_pubrel = !auto;
                c.alph.early_peer_traffic = true;
                if ver == Ver::V5 {
                    c.connacks = vec![AckProf::basic(false), AckProf::basic(true), AckProf { rm: Some(2), ..AckProf::basic(true) }];
                    c.connects = vec![ConnProf::basic(true), ConnProf::basic(false), ConnProf { rm: Some(2), ..ConnProf::basic(false) }];
                }
                c.groups = vec![];
                v.push(c);
            }
        }
    }
    // v5.0 publishes that register an alias next to a padded property block (129 bytes with the alias, 126 in
    // the stored copy): what is exported, restored and retransmitted is a frame the peer reads as the same message
    // (the frame rule of the reference model is on while the crash points are collected)
    for role in [RoleK::Client, RoleK::Server] {
        if !thorough && role == RoleK::Server {
            continue;
        }
        let mut c = EpCfg::new(&cfg_name("c16", role, Some(Ver::V5), "padded properties, aliases"), role, Some(Ver::V5));
        c.auto_pub = true;
        c.window = 2;
        c.pub_pad = 120;
        c.alph = session_alph(true, 2);
        c.alph.pub_q = vec![1, 2];
        c.alph.als = vec![Al::No, Al::Reg(1)];
        c.connects = vec![ConnProf { tam: Some(1), ..ConnProf::basic(false) }];
        c.connacks = vec![AckProf { tam: Some(1), ..AckProf::basic(true) }];
        c.groups = vec!["c06"];
        v.push(c);
    }
    // three stored messages and the application's message-expiry hook (erase_stored_publish): the export keeps
    // the acceptance order whichever entry is erased
    for ver in [Ver::V4, Ver::V5] {
        let mut c = EpCfg::new(&cfg_name("c16", RoleK::Client, Some(ver), "erase window=3"), RoleK::Client, Some(ver));
        c.auto_pub = true;
        c.window = 3;
        c.alph = session_alph(ver == Ver::V5, 3);
        c.alph.pub_q = vec![1];
        c.alph.erase = true;
        c.alph.peer_acks = vec![AckKind::Puback];
        c.connects = vec![ConnProf::basic(false)];
        c.connacks = vec![AckProf::basic(true)];
        // the store-content rules of the reference model (store = accepted-order list) are judged while the
        // crash points are collected: the differential phase compares two objects that would share a permuted order
        c.groups = vec!["c06"];
        v.push(c);
    }
    v
}

fn resume<P: Pid>(c: &mut ConnBox<P>, ver: Ver, as_client: bool, rm: Option<u16>) -> Trace {
    resume2(c, ver, as_client, rm, None)
}

/// resume handshake in which the peer announces Receive Maximum `rm` and Maximum Packet Size `mps`
fn resume3<P: Pid>(c: &mut ConnBox<P>, ver: Ver, as_client: bool, rm: Option<u16>, mps: Option<u32>) -> Trace {
    let mut t = vec![];
    let cp = ConnProf { rm: if as_client { None } else { rm }, mps: if as_client { None } else { mps }, ..ConnProf::basic(false) };
    let ap = AckProf { rm: if as_client { rm } else { None }, mps: if as_client { mps } else { None }, ..AckProf::basic(true) };
    if as_client {
        send(c, &mut t, cp.ap(ver));
        recv(c, &mut t, ap.ap(ver));
    } else {
        recv(c, &mut t, cp.ap(ver));
        send(c, &mut t, ap.ap(ver));
    }
    t
}

/// resume handshake with the peer's Receive Maximum `rm` and the own one `own`
fn resume2<P: Pid>(c: &mut ConnBox<P>, ver: Ver, as_client: bool, rm: Option<u16>, own: Option<u16>) -> Trace {
    let mut t = vec![];
    let cp = ConnProf { rm: if as_client { own } else { rm }, ..ConnProf::basic(false) };
    let ap = AckProf { rm: if as_client { rm } else { own }, ..AckProf::basic(true) };
    if as_client {
        send(c, &mut t, cp.ap(ver));
        recv(c, &mut t, ap.ap(ver));
    } else {
        recv(c, &mut t, cp.ap(ver));
        send(c, &mut t, ap.ap(ver));
    }
    t
}

/// continuation alphabet: one step from both objects
fn continuations<P: Pid>(ver: Ver) -> Vec<(String, Box<dyn Fn(&mut ConnBox<P>) -> Vec<Ev> + Send + Sync>)> {
    let mut v: Vec<(String, Box<dyn Fn(&mut ConnBox<P>) -> Vec<Ev> + Send + Sync>)> = vec![];
    for k in [AckKind::Puback, AckKind::Pubrec, AckKind::Pubcomp, AckKind::Pubrel] {
        for id in 1..=3u32 {
            v.push((format!("recv {} {id}", k.name()), Box::new(move |c: &mut ConnBox<P>| {
                let (l, _) = c.recv_all(&rc::encode(&AP::Ack { ver, kind: k, pid: id, code: None, props: None }, P::W));
                l.into_iter().flatten().collect()
            })));
        }
    }
    for id in 1..=2u32 {
        v.push((format!("recv PUBLISH q2 {id} dup"), Box::new(move |c: &mut ConnBox<P>| {
            let (l, _) = c.recv_all(&rc::encode(&AP::Publish { ver, dup: true, qos: 2, retain: false, topic: b"a".to_vec(), pid: Some(id), props: vec![], payload: b"p".to_vec() }, P::W));
            l.into_iter().flatten().collect()
        })));
    }
    for id in 1..=3u32 {
        v.push((format!("register {id}"), Box::new(move |c: &mut ConnBox<P>| {
            let r = c.register(id);
            vec![if r.is_ok() { Ev::Released(0) } else { Ev::Close }]
        })));
    }
    v.push(("acquire + publish q1".into(), Box::new(move |c: &mut ConnBox<P>| {
        let id = c.acquire().unwrap_or(0);
        let mut e = vec![Ev::Released(id)];
        if let Some(p) = bridge::build::<P>(&AP::Publish { ver, dup: false, qos: 1, retain: false, topic: b"a".to_vec(), pid: Some(id), props: vec![], payload: b"p".to_vec() }).ok() {
            e.extend(c.send(p));
        }
        e
    })));
    v.push(("vacancy".into(), Box::new(move |c: &mut ConnBox<P>| vec![Ev::TimerReset(Tk::PingreqSend, c.vacancy().map(|x| x as u64).unwrap_or(99999))])));
    v
}

/// when the export is handed to the new object relative to the handshake
#[derive(Clone, Copy, PartialEq, Debug)]
enum Late {
    /// before the CONNECT
    No,
    /// between CONNECT and CONNACK
    Plain,
    /// ... and the transport is lost before the CONNACK; the next attempt resumes
    Lost,
    /// ... and the peer's acknowledgement of the first restored packet arrives ahead of the CONNACK
    EarlyAck,
    /// ... and the CONNACK says "session not present"
    NotPresent,
}

pub fn c16(rep: &mut Report) {
    let thorough = rep.thorough();
    let mut compared = 0u64;
    let mut crash_points = 0u64;
    let mut with_store = 0u64;
    let mut with_handled = 0u64;
    for cfg in c16_configs(thorough) {
        let lim = if thorough { Limits::new(200, 300_000, 90.0) } else { Limits::new(200, 20_000, 5.0) };
        let name = cfg.name.clone();
        let (_st, kept, hists) = run_keep::<u16>(rep, cfg, lim);
        let results: Vec<(u64, bool, bool, Vec<Violation>)> = crate::util::par_map(kept.len(), |i| {
            let w = &kept[i];
            let mut out = vec![];
            // crash points: step boundaries of a persistent session; the export API cannot see an
            // exchange between PUBREC and a deferred PUBREL, nor identifiers parked by the application
            if !w.m.persistent || w.m.close_pending || w.m.ids.values().any(|o| matches!(o, Owner::App | Owner::Sub | Owner::Unsub)) || w.m.st == St::Connecting {
                return (0, false, false, out);
            }
            // an exchange between PUBREC and a deferred (manual) PUBREL is "accepted but not completed" too:
            // the restored object must at least hold its identifier. Judged on its own (one signature); the
            // differential comparison below would only repeat the consequence.
            let owed: Vec<u32> = w.m.ids.iter().filter(|(_, o)| **o == Owner::RelOwed).map(|(i, _)| *i).collect();
            if !owed.is_empty() {
                let x_store = w.conn.stored();
                let x_handled = w.conn.handled();
                let ver = w.m.ver.unwrap();
                let r = guarded(|| {
                    let mut b = fresh_conn::<u16>(&w.cfg, Some(ver));
                    b.restore_packets(x_store.clone());
                    b.restore_handled(&x_handled);
                    owed.iter().filter(|id| b.clone().register(**id).is_ok()).copied().collect::<Vec<u32>>()
                });
                let hist: Vec<serde_json::Value> = hists[i].iter().map(|a| json!(format!("{a:?}"))).chain(std::iter::once(json!("then: export, crash, restore into a fresh object"))).collect();
                match r {
                    Err(m) => out.push(Violation { rule: "c16.panic".into(), sig: format!("c16.panic|{}", crate::util::panic_sig(&m)), detail: format!("[{name}] panic while restoring: {m}"), config: name.clone(), history: hist }),
                    Ok(free) => {
                        if !free.is_empty() {
                            out.push(Violation { rule: "c16.owed-pubrel-not-exported".into(), sig: format!("c16.owed-pubrel-not-exported|{}", if ver == Ver::V5 { "v5" } else { "v4" }), detail: format!("[{name}] QoS 2 exchange(s) {free:?} have received PUBREC and await the application's PUBREL at the crash point; get_stored_packets() exports nothing for them, so the restored object neither holds their identifiers (register succeeds) nor can complete them - the original would"), config: name.clone(), history: hist });
                        }
                    }
                }
                return (1, false, false, out);
            }
            let ver = w.m.ver.unwrap();
            let as_client = w.m.as_client;
            let cont = continuations::<u16>(ver);
            let hist: Vec<serde_json::Value> = hists[i].iter().map(|a| json!(format!("{a:?}"))).chain(std::iter::once(json!("then: export, crash, restore into a fresh object, resume both"))).collect();
            let mut n = 0u64;
            let x_store = w.conn.stored();
            let x_handled = w.conn.handled();
            // (Receive Maximum of the resuming connection, a connection attempt that dies before the CONNACK first)
            // (..., the application re-applies its - default - option values after the restore / before reconnecting)
            let mut variants: Vec<(Option<u16>, bool, bool, Late)> = if ver == Ver::V5 { vec![(None, false, false, Late::No), (Some(1u16), false, false, Late::No)] } else { vec![(None, false, false, Late::No)] };
            variants.push((None, true, false, Late::No));
            variants.push((None, true, true, Late::No));
            // v5.0: the peer's Maximum Packet Size on the resuming connection is exactly the size of the largest
            // exported packet - everything still fits and is retransmitted (encoded as Receive Maximum 65 534)
            let fit_mps: Option<u32> = {
                use mqtt_protocol_core::mqtt::packet::GenericPacketTrait;
                // (an export that only holds PUBRELs would give a limit below the size of the CONNACK itself)
                x_store.iter().map(|p| p.to_continuous_buffer().len() as u32).max().filter(|m| *m >= 9)
            };
            if ver == Ver::V5 && fit_mps.is_some() {
                variants.push((Some(65_534), false, false, Late::No));
            }
            // a server only learns from the CONNECT whose session to restore: restore_*() between the CONNECT
            // and the CONNACK. Then: the CONNACK (session present) | the transport is lost before the CONNACK and
            // the next attempt resumes | the peer's acknowledgement of the first restored packet arrives ahead of
            // the CONNACK | the CONNACK says "session not present" (what was restored is the session before the
            // CONNECT and goes). A client may restore in the same window.
            let late_rms: Vec<Option<u16>> = if !as_client && ver == Ver::V5 { vec![None, Some(1u16)] } else { vec![None] };
            for rm in late_rms {
                variants.push((rm, false, false, Late::Plain));
            }
            for l in [Late::Lost, Late::EarlyAck, Late::NotPresent] {
                variants.push((None, false, false, l));
            }
            for (rm, failed_first, reapply_options, late) in variants {
                let restore_late = late != Late::No;
                n += 1;
                let r = guarded(|| {
                    let mut a = w.conn.clone();
                    if w.m.link_up || w.m.st != St::Disc {
                        let _ = a.notify_closed();
                    }
                    let mut b = fresh_conn::<u16>(&w.cfg, Some(ver));
                    if !restore_late {
                        b.restore_packets(x_store.clone());
                        b.restore_handled(&x_handled);
                    }
                    // restored identifiers are in use
                    let mut direct: Vec<String> = vec![];
                    // the two restore calls are independent: the other order gives the same object
                    if !restore_late {
                        let mut b2 = fresh_conn::<u16>(&w.cfg, Some(ver));
                        b2.restore_handled(&x_handled);
                        b2.restore_packets(x_store.clone());
                        if b2.snap() != b.snap() {
                            let (names, _) = debug_diff(&b.snap(), &b2.snap());
                            direct.push(format!("restore order matters: restore_qos2_publish_handled() before restore_packets() differs from the reverse order in {names:?}"));
                        }
                    }
                    for p in x_store.iter().filter(|_| !restore_late) {
                        let id = p.packet_id() as u32;
                        let mut bb = b.clone();
                        if bb.register(id).is_ok() {
                            direct.push(format!("restored id {id} can be registered again"));
                        }
                    }
                    // the export lists the incomplete messages in the order they were accepted (the reference
                    // model's list): original and restored object agree with each other by construction, so a
                    // permuted export would otherwise go unnoticed
                    {
                        let exported: Vec<u32> = x_store.iter().map(|p| p.packet_id() as u32).collect();
                        let accepted: Vec<u32> = w.m.store.iter().map(|e| e.id).collect();
                        if exported != accepted {
                            direct.push(format!("export order differs: get_stored_packets() lists ids {exported:?}, they were accepted in the order {accepted:?}"));
                        }
                    }
                    let mut ta: Trace = vec![];
                    let mut tb: Trace = vec![];
                    if reapply_options {
                        // setting an option to the value it already has is a no-op for the session
                        for c in [&mut a, &mut b] {
                            c.set_offline_publish(w.cfg.offline);
                            c.set_auto_pub_response(w.m.auto_pub);
                        }
                    }
                    if failed_first {
                        // the first attempt to resume never gets established (transport lost before the CONNACK):
                        // it must leave the session - original or restored - as it was
                        for (c, t) in [(&mut a, &mut ta), (&mut b, &mut tb)] {
                            let cp = ConnProf::basic(false);
                            if as_client {
                                send(c, t, cp.ap(ver));
                            } else {
                                recv(c, t, cp.ap(ver));
                            }
                            let e = c.notify_closed();
                            t.push(("notify_closed() before the CONNACK".into(), e));
                        }
                    }
                    if restore_late {
                        // CONNECT received (server) / sent (client), then the session is restored, then the CONNACK
                        // (the early acknowledgement is tried on an attempt that resumes without asking for a
                        // session expiry: until the CONNACK the session is still the persistent one it was)
                        let cp = if late == Late::EarlyAck { ConnProf { rm, ..ConnProf::resume_no_expiry() } } else { ConnProf { rm, ..ConnProf::basic(false) } };
                        if as_client {
                            send(&mut a, &mut ta, cp.ap(ver));
                            send(&mut b, &mut tb, cp.ap(ver));
                        } else {
                            recv(&mut a, &mut ta, cp.ap(ver));
                            recv(&mut b, &mut tb, cp.ap(ver));
                        }
                        b.restore_packets(x_store.clone());
                        b.restore_handled(&x_handled);
                        // the restored set *is* the session's set of handled identifiers: handed to an object that
                        // still holds its own (the original), it replaces that set, it is not merged into it
                        for other in [vec![], vec![7u32]] {
                            let mut a2 = a.clone();
                            a2.restore_handled(&other);
                            if a2.handled() != other {
                                direct.push(format!("restore_qos2_publish_handled({other:?}) between CONNECT and CONNACK on an object that holds {x_handled:?}: it now reports {:?}", a2.handled()));
                            }
                        }
                        if a.vacancy() != b.vacancy() {
                            direct.push(format!("restored after the CONNECT: vacancy {:?} on the original, {:?} on the restored object", a.vacancy(), b.vacancy()));
                        }
                        let connack = |c: &mut ConnBox<u16>, t: &mut Trace, sp: bool| {
                            if as_client {
                                recv(c, t, AckProf::basic(sp).ap(ver));
                            } else {
                                send(c, t, AckProf::basic(sp).ap(ver));
                            }
                        };
                        match late {
                            Late::Lost => {
                                for (c, t) in [(&mut a, &mut ta), (&mut b, &mut tb)] {
                                    let e = c.notify_closed();
                                    t.push(("notify_closed() before the CONNACK".into(), e));
                                }
                                ta.extend(resume(&mut a, ver, as_client, rm));
                                tb.extend(resume(&mut b, ver, as_client, rm));
                            }
                            Late::EarlyAck => {
                                if let Some(p) = x_store.first() {
                                    let id = p.packet_id() as u32;
                                    let g: mqtt_protocol_core::mqtt::packet::GenericPacket<u16> = p.clone().into();
                                    let kind = match bridge::read(&g) {
                                        AP::Publish { qos: 1, .. } => AckKind::Puback,
                                        AP::Publish { .. } => AckKind::Pubrec,
                                        _ => AckKind::Pubcomp,
                                    };
                                    let ack = AP::Ack { ver, kind, pid: id, code: None, props: None };
                                    recv(&mut a, &mut ta, ack.clone());
                                    recv(&mut b, &mut tb, ack);
                                }
                                connack(&mut a, &mut ta, true);
                                connack(&mut b, &mut tb, true);
                            }
                            Late::NotPresent => {
                                connack(&mut a, &mut ta, false);
                                connack(&mut b, &mut tb, false);
                                if !b.stored().is_empty() || !b.handled().is_empty() {
                                    direct.push(format!("session not present after a restore between CONNECT and CONNACK: the restored object still stores ids {:?} and suppresses QoS 2 ids {:?}", b.stored().iter().map(|p| p.packet_id()).collect::<Vec<_>>(), b.handled()));
                                }
                                for p in &x_store {
                                    let id = p.packet_id() as u32;
                                    if b.clone().register(id).is_err() {
                                        direct.push(format!("session not present after a restore between CONNECT and CONNACK: restored id {id} is still in use"));
                                    }
                                }
                            }
                            _ => {
                                connack(&mut a, &mut ta, true);
                                connack(&mut b, &mut tb, true);
                            }
                        }
                    } else if rm == Some(65_534) {
                        ta.extend(resume3(&mut a, ver, as_client, None, fit_mps));
                        tb.extend(resume3(&mut b, ver, as_client, None, fit_mps));
                    } else {
                        ta.extend(resume(&mut a, ver, as_client, rm));
                        tb.extend(resume(&mut b, ver, as_client, rm));
                    }
                    let sa = a.snap();
                    let sb = b.snap();
                    // absolute clauses on the restored object: retransmission = the export, in order;
                    // every stored packet's acknowledgement is accepted and releases the id; QoS 2
                    // duplicates of handled ids are answered with PUBREC and not notified
                    if !matches!(late, Late::EarlyAck | Late::NotPresent) {
                        use mqtt_protocol_core::mqtt::packet::GenericPacketTrait;
                        let want: Vec<Vec<u8>> = x_store.iter().map(|p| p.to_continuous_buffer()).collect();
                        let got: Vec<Vec<u8>> = tb.iter().flat_map(|s| s.1.iter()).filter_map(|e| if let Ev::Send { bytes, ap, .. } = e { if matches!(ap, AP::Connack { .. } | AP::Connect { .. }) { None } else { Some(bytes.clone()) } } else { None }).collect();
                        if want != got {
                            direct.push(format!("the restored object retransmits {} packets {:?}, the export holds {} packets {:?}", got.len(), got.iter().map(|b| crate::util::hex_trunc(b, 12)).collect::<Vec<_>>(), want.len(), want.iter().map(|b| crate::util::hex_trunc(b, 12)).collect::<Vec<_>>()));
                        }
                        for p in &x_store {
                            let id = p.packet_id() as u32;
                            let g: mqtt_protocol_core::mqtt::packet::GenericPacket<u16> = p.clone().into();
                            let kind = match bridge::read(&g) {
                                AP::Publish { qos: 1, .. } => AckKind::Puback,
                                AP::Publish { .. } => AckKind::Pubrec,
                                _ => AckKind::Pubcomp,
                            };
                            let mut bb = b.clone();
                            let code = if kind == AckKind::Pubrec && ver == Ver::V5 { Some(0x80) } else { None };
                            let (l, _) = bb.recv_all(&rc::encode(&AP::Ack { ver, kind, pid: id, code, props: None }, 2));
                            let evs: Vec<Ev> = l.into_iter().flatten().collect();
                            let accepted = evs.iter().any(|e| matches!(e, Ev::Recv { .. }));
                            let released = evs.iter().any(|e| matches!(e, Ev::Released(x) if *x == id));
                            let must_release = kind != AckKind::Pubrec || code.is_some();
                            if !accepted || (must_release && !released) {
                                direct.push(format!("{} for restored id {id} on the restored object: {:?}", kind.name(), short(&evs)));
                            }
                        }
                        for id in &x_handled {
                            let mut bb = b.clone();
                            let (l, _) = bb.recv_all(&rc::encode(&AP::Publish { ver, dup: true, qos: 2, retain: false, topic: b"a".to_vec(), pid: Some(*id), props: vec![], payload: b"p".to_vec() }, 2));
                            let evs: Vec<Ev> = l.into_iter().flatten().collect();
                            if evs.iter().any(|e| matches!(e, Ev::Recv { .. })) || !evs.iter().any(|e| matches!(e, Ev::Send { ap: AP::Ack { kind: AckKind::Pubrec, .. }, .. })) {
                                direct.push(format!("QoS 2 duplicate of handled id {id} on the restored object: {:?}", short(&evs)));
                            }
                        }
                    }
                    let mut cont_diff: Option<(String, Vec<String>, Vec<String>, Vec<String>)> = None;
                    if ta == tb && sa == sb {
                        for (label, f) in &cont {
                            let mut a2 = a.clone();
                            let mut b2 = b.clone();
                            let ea = f(&mut a2);
                            let eb = f(&mut b2);
                            let (s1, s2) = (a2.snap(), b2.snap());
                            if ea != eb || s1 != s2 {
                                cont_diff = Some((label.clone(), short(&ea), short(&eb), debug_diff(&s1, &s2).0));
                                break;
                            }
                        }
                    }
                    (ta, tb, sa, sb, cont_diff, direct)
                });
                match r {
                    Err(m) => out.push(Violation { rule: "c16.panic".into(), sig: format!("c16.panic|{}", crate::util::panic_sig(&m)), detail: format!("[{name}] panic while resuming the original or the restored object: {m}"), config: name.clone(), history: hist.clone() }),
                    Ok((ta, tb, sa, sb, cd, direct)) => {
                        for d in direct {
                            let kind = d.split(' ').take(3).collect::<Vec<_>>().join(" ");
                            out.push(Violation { rule: "c16.restored-behaviour".into(), sig: format!("c16.restored-behaviour|{kind}"), detail: format!("[{name}] {d}"), config: name.clone(), history: hist.clone() });
                        }
                        if let Some((step, x, y)) = first_diff(&ta, &tb) {
                            out.push(Violation { rule: "c16.resume-events".into(), sig: format!("c16.resume-events|{}|rm={rm:?}{}", step.split(' ').take(2).collect::<Vec<_>>().join(" "), if reapply_options { "|after a failed attempt, options re-applied".to_string() } else if failed_first { "|after a failed attempt".to_string() } else if late != Late::No { format!("|restored between CONNECT and CONNACK ({late:?})") } else { String::new() }), detail: format!("[{name}] resume (Receive Maximum {rm:?}{}): at '{step}' the original returns {x:?}, the restored object {y:?}", if failed_first { ", after a connection attempt that was closed before the CONNACK".to_string() } else if late != Late::No { format!(", export handed over between CONNECT and CONNACK ({late:?})") } else { String::new() }), config: name.clone(), history: hist.clone() });
                        } else if sa != sb {
                            let (names, text) = debug_diff(&sa, &sb);
                            out.push(Violation { rule: "c16.state".into(), sig: format!("c16.state|{}{}", names.join("+"), if late != Late::No { format!("|{late:?}") } else { String::new() }), detail: format!("[{name}] after resuming (restore: {late:?}), the restored object differs from the original in {names:?}: {text}"), config: name.clone(), history: hist.clone() });
                        } else if let Some((label, x, y, names)) = cd {
                            out.push(Violation { rule: "c16.continuation".into(), sig: format!("c16.continuation|{}", label.split(' ').take(2).collect::<Vec<_>>().join(" ")), detail: format!("[{name}] continuation '{label}': original {x:?} vs restored {y:?} (state fields differing: {names:?})"), config: name.clone(), history: hist.clone() });
                        }
                    }
                }
            }
            (n, !x_store.is_empty(), !x_handled.is_empty(), out)
        });
        for (n, s, h, vs) in results {
            if n > 0 {
                crash_points += 1;
            }
            compared += n;
            with_store += s as u64;
            with_handled += h as u64;
            for v in vs {
                rep.violation(v);
            }
        }
    }
    c16_malformed(rep);
    rep.count("c16.crash-points", crash_points);
    rep.count("c16.comparisons", compared);
    rep.count("c16.crash-points-with-stored-packets", with_store);
    rep.count("c16.crash-points-with-handled-ids", with_handled);
    rep.add_cov("traces_validated_against_impl", compared);
    rep.floor("c16.crash-points-with-stored-packets", 10);
    rep.floor("c16.crash-points-with-handled-ids", 10);
    rep.assume("crash / export points are application step boundaries of a persistent session (after mandatory replies; no identifier parked by the application); an exchange between PUBREC and a deferred PUBREL is judged only for 'its identifier is held' (known finding)");
}

/// malformed exports: duplicate ids and a QoS 0 PUBLISH wrapped in GenericStorePacket are skipped
fn c16_malformed(rep: &mut Report) {
    use mqtt_protocol_core::mqtt::packet::{GenericPacket, GenericStorePacket};
    let r = guarded(|| {
        for ver in [Ver::V4, Ver::V5] {
            let mk = |q: u8, id: Option<u32>| -> GenericPacket<u16> { bridge::build::<u16>(&AP::Publish { ver, dup: q > 0, qos: q, retain: false, topic: b"a".to_vec(), pid: id, props: vec![], payload: b"p".to_vec() }).ok().unwrap() };
            let to_store = |p: GenericPacket<u16>| -> GenericStorePacket<u16> {
                match p {
                    GenericPacket::V3_1_1Publish(x) => GenericStorePacket::V3_1_1Publish(x),
                    GenericPacket::V5_0Publish(x) => GenericStorePacket::V5_0Publish(x),
                    GenericPacket::V3_1_1Pubrel(x) => GenericStorePacket::V3_1_1Pubrel(x),
                    GenericPacket::V5_0Pubrel(x) => GenericStorePacket::V5_0Pubrel(x),
                    _ => unreachable!(),
                }
            };
            let rel: GenericPacket<u16> = bridge::build::<u16>(&AP::Ack { ver, kind: AckKind::Pubrel, pid: 3, code: None, props: None }).ok().unwrap();
            let export = vec![to_store(mk(1, Some(1))), to_store(mk(0, None)), to_store(mk(2, Some(1))), to_store(mk(2, Some(2))), to_store(rel.clone()), to_store(rel)];
            let mut c = ConnBox::<u16>::new(RoleK::Client, Some(ver));
            c.restore_packets(export);
            let ids: Vec<u16> = c.stored().iter().map(|p| p.packet_id()).collect();
            assert_eq!(ids, vec![1, 2, 3], "duplicate ids and the QoS 0 entry must be skipped, the rest restored in order");
            for id in [1u32, 2, 3] {
                assert!(c.register(id).is_err(), "restored id {id} must be in use");
            }
            // resume and acknowledge everything
            let _ = c.send(bridge::build::<u16>(&ConnProf::basic(false).ap(ver)).ok().unwrap());
            let (l, _) = c.recv_all(&rc::encode(&AckProf::basic(true).ap(ver), 2));
            let n_resent = l.iter().flatten().filter(|e| matches!(e, Ev::Send { .. })).count();
            assert_eq!(n_resent, 3, "three restored packets retransmitted");
        }
    });
    rep.count("c16.malformed-exports", 1);
    // "skipped" means skipped entirely: every export of up to 3 entries over {PUBLISH q1 id1, PUBLISH q2 id1,
    // PUBLISH q0, PUBREL id1, PUBLISH q1 id2, a PUBLISH of the other protocol version} leaves the object exactly as the export without the skipped
    // entries does (first entry per identifier wins, QoS 0 entries never count)
    let mut n_exports = 0u64;
    for ver in [Ver::V4, Ver::V5] {
        // (QoS | 3 = PUBREL | 11 = PUBLISH QoS 1 of the *other* protocol version, id)
        let kinds: Vec<(u8, u32)> = vec![(1, 1), (2, 1), (0, 0), (3, 1), (1, 2), (11, 3)];
        let mut seqs: Vec<Vec<usize>> = vec![];
        for a in 0..kinds.len() {
            seqs.push(vec![a]);
            for b in 0..kinds.len() {
                seqs.push(vec![a, b]);
                for c in 0..kinds.len() {
                    seqs.push(vec![a, b, c]);
                }
            }
        }
        for sq in seqs {
            n_exports += 1;
            let kinds2 = kinds.clone();
            let sq2 = sq.clone();
            let r = guarded(move || {
                let mk = |k: (u8, u32)| -> GenericStorePacket<u16> {
                    let other = if ver == Ver::V4 { Ver::V5 } else { Ver::V4 };
                    let p: GenericPacket<u16> = if k.0 == 11 {
                        bridge::build::<u16>(&AP::Publish { ver: other, dup: true, qos: 1, retain: false, topic: b"a".to_vec(), pid: Some(k.1), props: vec![], payload: b"p".to_vec() }).ok().unwrap()
                    } else if k.0 == 3 {
                        bridge::build::<u16>(&AP::Ack { ver, kind: AckKind::Pubrel, pid: k.1, code: None, props: None }).ok().unwrap()
                    } else {
                        bridge::build::<u16>(&AP::Publish { ver, dup: k.0 > 0, qos: k.0, retain: false, topic: b"a".to_vec(), pid: if k.0 > 0 { Some(k.1) } else { None }, props: vec![], payload: b"p".to_vec() }).ok().unwrap()
                    };
                    match p {
                        GenericPacket::V3_1_1Publish(x) => GenericStorePacket::V3_1_1Publish(x),
                        GenericPacket::V5_0Publish(x) => GenericStorePacket::V5_0Publish(x),
                        GenericPacket::V3_1_1Pubrel(x) => GenericStorePacket::V3_1_1Pubrel(x),
                        GenericPacket::V5_0Pubrel(x) => GenericStorePacket::V5_0Pubrel(x),
                        _ => unreachable!(),
                    }
                };
                let full: Vec<(u8, u32)> = sq2.iter().map(|i| kinds2[*i]).collect();
                let mut seen = std::collections::BTreeSet::new();
                let clean: Vec<(u8, u32)> = full.iter().copied().filter(|k| k.0 != 0 && k.0 != 11 && seen.insert(k.1)).collect();
                let mut a = ConnBox::<u16>::new(RoleK::Client, Some(ver));
                a.restore_packets(full.iter().map(|k| mk(*k)).collect());
                let mut b = ConnBox::<u16>::new(RoleK::Client, Some(ver));
                b.restore_packets(clean.iter().map(|k| mk(*k)).collect());
                let (mut sa, sb) = (a.snap(), b.snap());
                if clean.is_empty() && !full.is_empty() {
                    // an export whose entries are all unusable still declares a persistent session (the mark does
                    // not depend on the entries, so that an auto-detecting server - which cannot judge them yet -
                    // and a fixed-version server agree); everything else must be as if nothing had been restored
                    sa.need_store = sb.need_store;
                    sa.need_store_before_connect = sb.need_store_before_connect;
                }
                (full, clean, sa, sb)
            });
            match r {
                Err(m) => rep.violation(Violation { rule: "c16.malformed-export".into(), sig: format!("c16.malformed-export|{}", crate::util::panic_sig(&m)), detail: format!("malformed export {sq:?}: {m}"), config: "c16 malformed exports".into(), history: vec![json!(format!("restore entries {sq:?} of [q1 id1, q2 id1, q0, PUBREL id1, q1 id2] ({ver:?})"))] }),
                Ok((full, clean, sa, sb)) => {
                    if sa != sb {
                        let (names, text) = debug_diff(&sa, &sb);
                        rep.violation(Violation { rule: "c16.skipped-entry-leaves-traces".into(), sig: format!("c16.skipped-entry-leaves-traces|{}", names.join("+")), detail: format!("restoring the export {full:?} ((QoS | 3 = PUBREL, id) per entry) must equal restoring {clean:?} (duplicate identifiers and QoS 0 entries skipped), but the objects differ in {names:?}: {text}"), config: "c16 malformed exports".into(), history: vec![json!(format!("restore_packets({full:?}) vs restore_packets({clean:?}) into fresh {ver:?} clients"))] });
                    }
                }
            }
        }
    }
    rep.count("c16.malformed-exports-enumerated", n_exports);
    if let Err(m) = r {
        rep.violation(Violation { rule: "c16.malformed-export".into(), sig: format!("c16.malformed-export|{}", crate::util::panic_sig(&m)), detail: format!("malformed export (duplicate ids, QoS 0 entry): {m}"), config: "c16 malformed exports".into(), history: vec![json!("restore [PUBLISH q1 id1, PUBLISH q0, PUBLISH q2 id1 (dup id), PUBLISH q2 id2, PUBREL id3, PUBREL id3 (dup id)]")] });
    }
}

pub fn replay(config: &str, labels: &[String]) -> Result<Vec<String>, String> {
    // replay the prefix that reaches the state; the differential step is described in the last entry
    let labels: Vec<String> = labels.iter().filter(|l| !l.starts_with("then:")).cloned().collect();
    let cfgs: Vec<EpCfg> = c10_configs(true).into_iter().chain(c10_configs(false)).chain(c16_configs(true)).chain(c16_configs(false)).collect();
    replay_in::<u16>(cfgs, config, &labels)
}
