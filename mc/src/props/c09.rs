//! C09 — stream framing is independent of chunking (engine FRAME).
//!
//! For every stream (sequence of 1..3 frames from a small frame alphabet incl. invalid ones) and
//! every partition of it into successive receive buffers (all compositions for short streams, all
//! subsets of a boundary-centred cut set for long ones) the real `PacketBuilder` and a connected
//! real server connection are fed chunk by chunk; results must equal the reference framing of the
//! whole stream (refcodec) resp. the events obtained by feeding one whole frame per call.
use crate::bridge::Pid;
use crate::conn::{ConnBox, Ev, RoleK};
use crate::refcodec::{self as rc, Framed, Ver, AP};
use crate::report::{Report, Violation};
use crate::util::{guarded, hex_trunc};
use mqtt_protocol_core::mqtt;
use mqtt_protocol_core::mqtt::connection::{PacketBuildResult, PacketBuilder};
use serde_json::json;
use std::collections::BTreeSet;

#[derive(Clone, Debug, PartialEq, Eq)]
enum R {
    Complete { ty: u8, flags: u8, body_len: usize, body_fp: u64, end: usize },
    Error { end: usize },
}

struct FrameDef {
    name: &'static str,
    bytes: Vec<u8>,
    nonminimal: bool,
}

fn alphabet(thorough: bool) -> Vec<FrameDef> {
    let mut v = vec![];
    let mut add = |name: &'static str, bytes: Vec<u8>, nonminimal: bool| v.push(FrameDef { name, bytes, nonminimal });
    add("PINGREQ(rl0)", vec![0xC0, 0x00], false);
    add("PUBLISH(rl0)", vec![0x30, 0x00], false);
    add("PUBACK(id1)", vec![0x40, 0x02, 0x00, 0x01], false);
    add("PUBLISH(q0,a,xy)", vec![0x30, 0x05, 0x00, 0x01, b'a', b'x', b'y'], false);
    add("TYPE0", vec![0x00, 0x00], false);
    add("TYPE15", vec![0xF0, 0x00], false);
    add("PINGREQ(rl=80 00)", vec![0xC0, 0x80, 0x00], true);
    add("PUBACK(rl=82 00)", vec![0x40, 0x82, 0x00, 0x00, 0x02], true);
    // Remaining Length with 4 continuation bytes: error after 5 bytes, framing resumes at the next byte
    add("RL5(non-publish)", vec![0x40, 0x80, 0x80, 0x80, 0x80], false);
    add("RL5(publish)", vec![0x30, 0xFF, 0xFF, 0xFF, 0xFF], false);
    // 2-byte remaining length (128-byte body), PUBLISH (Arc path) and SUBSCRIBE-ish non-publish (Vec path)
    let mut p128 = vec![0x30, 0x80, 0x01, 0x00, 0x01, b't'];
    p128.extend((0..125).map(|i| i as u8));
    add("PUBLISH(rl128)", p128, false);
    let mut n128 = vec![0x40, 0x80, 0x01];
    n128.extend((0..128).map(|i| (255 - i) as u8));
    add("NONPUB(rl128)", n128, false);
    if thorough {
        let mut p16k = vec![0x30, 0x80, 0x80, 0x01, 0x00, 0x01, b't'];
        p16k.extend((0..16381).map(|i| (i % 251) as u8));
        add("PUBLISH(rl16384)", p16k, false);
        // maximal 4-byte RL header that is still valid would need 2 MB bodies; a 4-byte
        // non-minimal encoding of a small length exercises the same header path
        add("PUBACK(rl=82 80 80 00)", vec![0x40, 0x82, 0x80, 0x80, 0x00, 0x00, 0x03], true);
    }
    v
}

fn fp(b: &[u8]) -> u64 {
    crate::util::fp128(b) as u64
}

/// Reference framing of a whole stream (lenient about non-minimal Remaining Length).
fn reference(stream: &[u8]) -> Vec<R> {
    let mut out = vec![];
    let mut off = 0;
    while off < stream.len() {
        match rc::frame_one(&stream[off..]) {
            Framed::Frame { ty, flags, body, used, .. } => {
                off += used;
                out.push(R::Complete { ty, flags, body_len: body.len(), body_fp: fp(&body), end: off });
            }
            Framed::BadLength { used } => {
                off += used;
                out.push(R::Error { end: off });
            }
            Framed::Incomplete => break,
        }
    }
    out
}

/// Feed `stream` cut at `cuts` (sorted offsets, exclusive of 0 and len) to a fresh PacketBuilder.
fn run_builder(stream: &[u8], cuts: &[usize], cov: &mut BTreeSet<(u8, u8)>) -> Result<Vec<R>, String> {
    let mut pb = PacketBuilder::new();
    let mut out = vec![];
    let mut start = 0usize;
    let mut bounds: Vec<usize> = cuts.to_vec();
    bounds.push(stream.len());
    for &end in &bounds {
        let chunk = &stream[start..end];
        let mut cur = mqtt::common::Cursor::new(chunk);
        let mut spins = 0;
        while (cur.position() as usize) < chunk.len() {
            let st = pb.verif_state().state;
            let b = chunk[cur.position() as usize];
            cov.insert((st, if st == 1 { b >> 7 } else if st == 0 { (b >> 4 == 3) as u8 } else { 2 }));
            let before = cur.position();
            match pb.feed(&mut cur) {
                PacketBuildResult::Complete(raw) => {
                    let body = raw.data_as_slice();
                    out.push(R::Complete {
                        ty: raw.packet_type(),
                        flags: raw.flags(),
                        body_len: body.len(),
                        body_fp: fp(body),
                        end: start + cur.position() as usize,
                    });
                    // Arc path for PUBLISH, Vec path otherwise
                    let is_arc = matches!(raw.data, mqtt::connection::PacketData::Publish(_));
                    if is_arc != (raw.packet_type() == 3) {
                        return Err("PacketData variant does not match packet type".into());
                    }
                }
                PacketBuildResult::Incomplete => {}
                PacketBuildResult::Error(_) => out.push(R::Error { end: start + cur.position() as usize }),
            }
            if cur.position() == before {
                spins += 1;
                if spins > 2 {
                    return Err(format!("feed made no progress at stream offset {}", start + before as usize));
                }
            }
            if cur.position() as usize > chunk.len() {
                return Err("cursor moved past the chunk".into());
            }
        }
        start = end;
    }
    Ok(out)
}

/// a connected server; `own_mps`: the Maximum Packet Size it announced in its CONNACK (v5.0) - the size test of a
/// received frame must not depend on how the frame was cut into receive buffers either
#[derive(Clone, Copy, PartialEq)]
struct Srv {
    ver: Ver,
    own_mps: Option<u32>,
}
impl std::fmt::Debug for Srv {
    fn fmt(&self, f: &mut std::fmt::Formatter<'_>) -> std::fmt::Result {
        match self.own_mps {
            Some(l) => write!(f, "{:?}(own limit {l})", self.ver),
            None => write!(f, "{:?}", self.ver),
        }
    }
}
const SERVERS: [Srv; 3] = [Srv { ver: Ver::V4, own_mps: None }, Srv { ver: Ver::V5, own_mps: None }, Srv { ver: Ver::V5, own_mps: Some(6) }];

fn connected_server(srv: Srv) -> ConnBox<u16> {
    let ver = srv.ver;
    let mut c = ConnBox::<u16>::new(RoleK::Server, Some(ver));
    let connect = rc::encode(
        &AP::Connect { ver, clean: true, keep_alive: 1, client_id: b"c".to_vec(), will: None, user: None, pass: None, props: vec![] }, // keep alive in force: timer events are part of the compared sequences
        2,
    );
    let (_l, _n) = c.recv_all(&connect);
    let props = match srv.own_mps {
        Some(l) => vec![rc::Prop { id: 0x27, val: rc::PVal::U32(l) }],
        None => vec![],
    };
    let connack = crate::bridge::build::<u16>(&AP::Connack { ver, sp: false, code: 0, props }).ok().expect("connack");
    let _ = c.send(connack);
    c
}

/// Feed a stream to a connected server in chunks. Returns per-call event lists (until close).
fn run_conn(srv: Srv, stream: &[u8], cuts: &[usize]) -> Vec<Vec<Ev>> {
    let mut c = connected_server(srv);
    let mut lists = vec![];
    let mut start = 0usize;
    let mut bounds: Vec<usize> = cuts.to_vec();
    bounds.push(stream.len());
    'outer: for &end in &bounds {
        let (ls, _n) = c.recv_all(&stream[start..end]);
        for l in ls {
            let close = l.iter().any(|e| matches!(e, Ev::Close));
            lists.push(l);
            if close {
                break 'outer;
            }
        }
        start = end;
    }
    lists
}

fn compositions(len: usize) -> impl Iterator<Item = Vec<usize>> {
    // every subset of {1..len-1}
    let n = len.saturating_sub(1);
    (0u64..(1u64 << n)).map(move |m| (0..n).filter(|i| m >> i & 1 == 1).map(|i| i + 1).collect())
}

fn cut_set(stream: &[u8], frames: &[usize]) -> Vec<usize> {
    // every position inside a fixed header / RL field, +-2 around every frame boundary, one mid-body point
    let mut s = BTreeSet::new();
    let mut off = 0;
    for &fl in frames {
        for d in 1..=5usize.min(fl) {
            s.insert(off + d);
        }
        s.insert(off + fl / 2);
        for d in 0..=2usize {
            if off + fl >= d {
                s.insert(off + fl - d);
            }
            s.insert(off + fl + d);
        }
        off += fl;
    }
    s.into_iter().filter(|&x| x > 0 && x < stream.len()).collect()
}

pub fn run(rep: &mut Report) {
    let thorough = rep.thorough();
    let alpha = alphabet(thorough);
    let na = alpha.len();
    // streams: all sequences of 1..=3 frames
    let mut seqs: Vec<Vec<usize>> = vec![];
    for a in 0..na {
        seqs.push(vec![a]);
        for b in 0..na {
            seqs.push(vec![a, b]);
            for c in 0..na {
                seqs.push(vec![a, b, c]);
            }
        }
    }
    let full_limit = if thorough { 17 } else { 13 };
    let subset_bits = if thorough { 13 } else { 9 };
    let results: Vec<(u64, u64, u64, BTreeSet<(u8, u8)>, Vec<Violation>, u64)> = crate::util::par_map(seqs.len(), |si| {
        let seq = &seqs[si];
        let mut stream = vec![];
        let mut flens = vec![];
        for &i in seq {
            stream.extend_from_slice(&alpha[i].bytes);
            flens.push(alpha[i].bytes.len());
        }
        let has_nonmin = seq.iter().any(|&i| alpha[i].nonminimal);
        let names: Vec<&str> = seq.iter().map(|&i| alpha[i].name).collect();
        let mut cov = BTreeSet::new();
        let mut viols = vec![];
        let mut evals = 0u64;
        let mut conn_evals = 0u64;
        let mut cut_in_rl = 0u64;
        let expect_ref = reference(&stream);
        // baseline: one whole frame per feed call
        let mut frame_cuts = vec![];
        let mut o = 0;
        for &l in &flens[..flens.len() - 1] {
            o += l;
            frame_cuts.push(o);
        }
        let base = guarded(|| run_builder(&stream, &frame_cuts, &mut cov));
        let parts: Vec<Vec<usize>> = if stream.len() <= full_limit {
            compositions(stream.len()).collect()
        } else {
            let mut cs = cut_set(&stream, &flens);
            // keep the most boundary-relevant cuts if there are too many
            if cs.len() > subset_bits {
                let mut keep: Vec<usize> = vec![];
                let mut off = 0;
                for &fl in &flens {
                    for c in [off + 1, off + 2, off + 3, off + fl - 1, off + fl, off + fl + 1] {
                        if c > 0 && c < stream.len() && !keep.contains(&c) {
                            keep.push(c);
                        }
                    }
                    off += fl;
                }
                keep.truncate(subset_bits);
                keep.sort();
                cs = keep;
            }
            let n = cs.len();
            (0u64..(1u64 << n)).map(|m| (0..n).filter(|i| m >> i & 1 == 1).map(|i| cs[i]).collect()).collect()
        };
        let mkv = |rule: &str, sig: String, detail: String, cuts: &[usize]| Violation {
            rule: rule.into(),
            sig,
            detail,
            config: "FRAME".into(),
            history: vec![json!({"frames": names, "stream_hex": hex_trunc(&stream, 64), "cuts": cuts})],
        };
        let conn_streams = stream.len() <= 40;
        let base_conn: Vec<(Srv, Result<Vec<Vec<Ev>>, String>)> = if conn_streams {
            SERVERS.iter().map(|v| (*v, guarded(|| run_conn(*v, &stream, &frame_cuts)))).collect()
        } else {
            vec![]
        };
        for cuts in &parts {
            evals += 1;
            // a cut strictly inside a Remaining Length field?
            let mut off = 0;
            for &fl in &flens {
                if cuts.iter().any(|&c| c > off + 1 && c < off + fl.min(5) && c < off + fl) {
                    cut_in_rl += 1;
                    break;
                }
                off += fl;
            }
            let got = guarded(|| run_builder(&stream, cuts, &mut cov));
            match got {
                Err(m) => viols.push(mkv("frame.panic", format!("frame.panic|{}", crate::util::panic_sig(&m)), format!("PacketBuilder::feed panicked: {m}"), cuts)),
                Ok(Err(m)) => viols.push(mkv("frame.cursor", format!("frame.cursor|{}", m.split(" at ").next().unwrap_or("")), m, cuts)),
                Ok(Ok(g)) => {
                    // independence from the partition: same as one-frame-per-call feeding
                    if let Ok(Ok(b)) = &base {
                        if &g != b {
                            viols.push(mkv("frame.partition", "frame.partition|builder".into(), format!("results under cuts {cuts:?}: {g:?} differ from whole-frame feeding: {b:?}"), cuts));
                        }
                    }
                    // agreement with the specification's framing (non-minimal RL: either answer is accepted)
                    if !has_nonmin && g != expect_ref {
                        viols.push(mkv("frame.reference", "frame.reference|builder".into(), format!("results {g:?} differ from reference framing {expect_ref:?}"), cuts));
                    }
                }
            }
            if conn_streams {
                for (ver, b) in &base_conn {
                    conn_evals += 1;
                    let got = guarded(|| run_conn(*ver, &stream, cuts));
                    match (&got, b) {
                        (Err(m), _) => viols.push(mkv("frame.conn-panic", format!("frame.conn-panic|{}", crate::util::panic_sig(m)), format!("recv panicked ({ver:?}): {m}"), cuts)),
                        (Ok(g), Ok(b)) => {
                            let flat = |x: &Vec<Vec<Ev>>| -> Vec<Ev> { x.iter().flatten().cloned().collect() };
                            if flat(g) != flat(b) {
                                viols.push(mkv("frame.conn-partition", format!("frame.conn-partition|{ver:?}"), format!("{ver:?}: events under cuts {cuts:?} differ from whole-frame feeding: {:?} vs {:?}", flat(g).iter().map(|e| e.short()).collect::<Vec<_>>(), flat(b).iter().map(|e| e.short()).collect::<Vec<_>>()), cuts));
                            }
                            for l in g {
                                let n_pk = l.iter().filter(|e| matches!(e, Ev::Recv { .. })).count();
                                if n_pk > 1 {
                                    viols.push(mkv("frame.one-per-call", format!("frame.one-per-call|{ver:?}"), format!("{ver:?}: one recv call returned {n_pk} received packets"), cuts));
                                }
                            }
                        }
                        _ => {}
                    }
                }
            }
            if viols.len() > 3 {
                break;
            }
        }
        if let Err(m) = &base {
            viols.push(mkv("frame.panic", format!("frame.panic|{}", crate::util::panic_sig(m)), format!("baseline feed panicked: {m}"), &frame_cuts));
        }
        (evals, conn_evals, cut_in_rl, cov, viols, 1)
    });
    let mut evals = 0;
    let mut conn_evals = 0;
    let mut cov = BTreeSet::new();
    let mut cut_in_rl = 0;
    for (e, c, r, cv, vs, _) in results {
        evals += e;
        conn_evals += c;
        cut_in_rl += r;
        cov.extend(cv);
        for v in vs {
            rep.violation(v);
        }
    }
    rep.count("frame.cut-inside-remaining-length", cut_in_rl);
    rep.count("frame.builder-state-x-byte-class", cov.len() as u64);
    rep.floor("frame.cut-inside-remaining-length", 1);
    rep.floor("frame.builder-state-x-byte-class", 5);
    rep.set_cov("states", json!(cov.len() as u64 + 1));
    rep.set_cov("transitions", json!(evals + conn_evals));
    rep.set_cov("traces_validated_against_impl", json!(evals + conn_evals));
    rep.set_cov("streams", json!(seqs.len()));
    rep.set_cov("builder_partitions", json!(evals));
    rep.set_cov("connection_partitions", json!(conn_evals));
    rep.set_cov("exhaustive", json!(true));
    rep.set_cov("rule", json!(format!("all sequences of 1..3 frames over a {}-frame alphabet x all compositions of streams <= {} bytes, all subsets of <= {} boundary cuts for longer ones; states = distinct (builder state, input byte class) pairs", na, full_limit, subset_bits)));
    rep.sample(json!({"frames": alpha.iter().map(|f| json!({"name": f.name, "hex": hex_trunc(&f.bytes, 12)})).collect::<Vec<_>>()}));
    rep.assume("for a non-minimal Remaining Length of <= 4 bytes the statement is silent: 'complete with the decoded length' and 'error' are both accepted, but the answer must be the same under every partition");
    let _ = <u16 as Pid>::W;
}

pub fn replay(v: &serde_json::Value) -> Result<Vec<String>, String> {
    let h = &v["history"][0];
    let alpha = alphabet(true);
    let mut stream = vec![];
    for n in h["frames"].as_array().ok_or("no frames")? {
        let f = alpha.iter().find(|f| Some(f.name) == n.as_str()).ok_or("unknown frame name")?;
        stream.extend_from_slice(&f.bytes);
    }
    let cuts: Vec<usize> = h["cuts"].as_array().ok_or("no cuts")?.iter().map(|x| x.as_u64().unwrap() as usize).collect();
    let mut log = vec![format!("stream {} cuts {:?}", hex_trunc(&stream, 64), cuts)];
    let mut cov = BTreeSet::new();
    match guarded(|| run_builder(&stream, &cuts, &mut cov)) {
        Ok(r) => log.push(format!("builder: {r:?}; reference {:?}", reference(&stream))),
        Err(m) => log.push(format!("PANIC: {m}")),
    }
    for ver in SERVERS {
        match guarded(|| run_conn(ver, &stream, &cuts)) {
            Ok(ls) => {
                for l in ls {
                    log.push(format!("{ver:?} recv -> {:?}", l.iter().map(|e| e.short()).collect::<Vec<_>>()));
                }
            }
            Err(m) => log.push(format!("PANIC: {m}")),
        }
    }
    Ok(log)
}
