//! Bridge between abstract packets (`refcodec::AP`) and the library's packet types:
//! `build` drives the public builders, `read` reads a library packet back through its public
//! accessors, `parse_frame` calls the library's `parse` functions the way `recv` does.
#![allow(dead_code)]
use crate::refcodec::{AckKind, PVal, Prop, Ver, Will, AP};
use mqtt_protocol_core::mqtt;
use mqtt_protocol_core::mqtt::packet::{
    v3_1_1, v5_0, GenericPacket, GenericPacketTrait, IsPacketId, Properties, Property, Qos, SubEntry, SubOpts,
};
use mqtt_protocol_core::mqtt::result_code::*;

pub trait Pid: IsPacketId<Buffer: Send + Sync> + mqtt::packet::IntoPacketId<Self> + Send + Sync + 'static {
    const W: usize;
    fn from_u32(v: u32) -> Option<Self>;
    fn to_u32_(self) -> u32;
}
impl Pid for u16 {
    const W: usize = 2;
    fn from_u32(v: u32) -> Option<Self> {
        u16::try_from(v).ok()
    }
    fn to_u32_(self) -> u32 {
        self as u32
    }
}
impl Pid for u32 {
    const W: usize = 4;
    fn from_u32(v: u32) -> Option<Self> {
        Some(v)
    }
    fn to_u32_(self) -> u32 {
        self
    }
}

#[derive(Debug)]
pub enum Built<T> {
    Ok(T),
    /// the public builder (or a value constructor it needs) refused the field values
    Rejected(MqttError),
    /// the field values cannot even be expressed through the typed builder API
    Inexpressible(String),
}
impl<T> Built<T> {
    pub fn ok(self) -> Option<T> {
        match self {
            Built::Ok(t) => Some(t),
            _ => None,
        }
    }
    pub fn accepted(&self) -> bool {
        matches!(self, Built::Ok(_))
    }
}

macro_rules! tryb {
    ($e:expr) => {
        match $e {
            Ok(v) => v,
            Err(e) => return Built::Rejected(e),
        }
    };
}
macro_rules! tryx {
    ($e:expr, $m:expr) => {
        match $e {
            Some(v) => v,
            None => return Built::Inexpressible($m.to_string()),
        }
    };
}

fn s(b: &[u8]) -> Option<&str> {
    std::str::from_utf8(b).ok()
}

pub fn qos_of(q: u8) -> Option<Qos> {
    match q {
        0 => Some(Qos::AtMostOnce),
        1 => Some(Qos::AtLeastOnce),
        2 => Some(Qos::ExactlyOnce),
        _ => None,
    }
}

pub fn lib_prop(p: &Prop) -> Built<Property> {
    use mqtt::packet as pk;
    macro_rules! st {
        ($t:ident, $v:expr) => {{
            let x = tryx!(s($v), "non-UTF-8 string");
            Built::Ok(Property::$t(tryb!(pk::$t::new(x))))
        }};
    }
    match (p.id, &p.val) {
        (0x01, PVal::U8(v)) => {
            let f = match v {
                0 => pk::PayloadFormat::Binary,
                1 => pk::PayloadFormat::String,
                _ => return Built::Inexpressible("payload format indicator > 1".into()),
            };
            Built::Ok(Property::PayloadFormatIndicator(tryb!(pk::PayloadFormatIndicator::new(f))))
        }
        (0x02, PVal::U32(v)) => Built::Ok(Property::MessageExpiryInterval(tryb!(pk::MessageExpiryInterval::new(*v)))),
        (0x03, PVal::Str(v)) => st!(ContentType, v),
        (0x08, PVal::Str(v)) => st!(ResponseTopic, v),
        (0x09, PVal::Bin(v)) => Built::Ok(Property::CorrelationData(tryb!(pk::CorrelationData::new(v.clone())))),
        (0x0B, PVal::Vbi(v)) => Built::Ok(Property::SubscriptionIdentifier(tryb!(pk::SubscriptionIdentifier::new(*v)))),
        (0x11, PVal::U32(v)) => Built::Ok(Property::SessionExpiryInterval(tryb!(pk::SessionExpiryInterval::new(*v)))),
        (0x12, PVal::Str(v)) => st!(AssignedClientIdentifier, v),
        (0x13, PVal::U16(v)) => Built::Ok(Property::ServerKeepAlive(tryb!(pk::ServerKeepAlive::new(*v)))),
        (0x15, PVal::Str(v)) => st!(AuthenticationMethod, v),
        (0x16, PVal::Bin(v)) => Built::Ok(Property::AuthenticationData(tryb!(pk::AuthenticationData::new(v.clone())))),
        (0x17, PVal::U8(v)) => Built::Ok(Property::RequestProblemInformation(tryb!(pk::RequestProblemInformation::new(*v)))),
        (0x18, PVal::U32(v)) => Built::Ok(Property::WillDelayInterval(tryb!(pk::WillDelayInterval::new(*v)))),
        (0x19, PVal::U8(v)) => Built::Ok(Property::RequestResponseInformation(tryb!(pk::RequestResponseInformation::new(*v)))),
        (0x1A, PVal::Str(v)) => st!(ResponseInformation, v),
        (0x1C, PVal::Str(v)) => st!(ServerReference, v),
        (0x1F, PVal::Str(v)) => st!(ReasonString, v),
        (0x21, PVal::U16(v)) => Built::Ok(Property::ReceiveMaximum(tryb!(pk::ReceiveMaximum::new(*v)))),
        (0x22, PVal::U16(v)) => Built::Ok(Property::TopicAliasMaximum(tryb!(pk::TopicAliasMaximum::new(*v)))),
        (0x23, PVal::U16(v)) => Built::Ok(Property::TopicAlias(tryb!(pk::TopicAlias::new(*v)))),
        (0x24, PVal::U8(v)) => Built::Ok(Property::MaximumQos(tryb!(pk::MaximumQos::new(*v)))),
        (0x25, PVal::U8(v)) => Built::Ok(Property::RetainAvailable(tryb!(pk::RetainAvailable::new(*v)))),
        (0x26, PVal::Pair(a, b)) => {
            let a = tryx!(s(a), "non-UTF-8 key");
            let b = tryx!(s(b), "non-UTF-8 value");
            Built::Ok(Property::UserProperty(tryb!(pk::UserProperty::new(a, b))))
        }
        (0x27, PVal::U32(v)) => Built::Ok(Property::MaximumPacketSize(tryb!(pk::MaximumPacketSize::new(*v)))),
        (0x28, PVal::U8(v)) => Built::Ok(Property::WildcardSubscriptionAvailable(tryb!(pk::WildcardSubscriptionAvailable::new(*v)))),
        (0x29, PVal::U8(v)) => Built::Ok(Property::SubscriptionIdentifierAvailable(tryb!(pk::SubscriptionIdentifierAvailable::new(*v)))),
        (0x2A, PVal::U8(v)) => Built::Ok(Property::SharedSubscriptionAvailable(tryb!(pk::SharedSubscriptionAvailable::new(*v)))),
        _ => Built::Inexpressible(format!("property id {} with that value type", p.id)),
    }
}

pub fn lib_props(ps: &[Prop]) -> Built<Properties> {
    let mut out = Properties::new();
    for p in ps {
        match lib_prop(p) {
            Built::Ok(x) => out.push(x),
            Built::Rejected(e) => return Built::Rejected(e),
            Built::Inexpressible(m) => return Built::Inexpressible(m),
        }
    }
    Built::Ok(out)
}

/// Read a library property back through its public accessors.
pub fn read_prop(p: &Property) -> Prop {
    let id = p.id().as_u8();
    let val = match p {
        Property::PayloadFormatIndicator(x) => PVal::U8(x.val()),
        Property::MessageExpiryInterval(x) => PVal::U32(x.val()),
        Property::ContentType(x) => PVal::Str(x.val().as_bytes().to_vec()),
        Property::ResponseTopic(x) => PVal::Str(x.val().as_bytes().to_vec()),
        Property::CorrelationData(x) => PVal::Bin(x.val().to_vec()),
        Property::SubscriptionIdentifier(x) => PVal::Vbi(x.val()),
        Property::SessionExpiryInterval(x) => PVal::U32(x.val()),
        Property::AssignedClientIdentifier(x) => PVal::Str(x.val().as_bytes().to_vec()),
        Property::ServerKeepAlive(x) => PVal::U16(x.val()),
        Property::AuthenticationMethod(x) => PVal::Str(x.val().as_bytes().to_vec()),
        Property::AuthenticationData(x) => PVal::Bin(x.val().to_vec()),
        Property::RequestProblemInformation(x) => PVal::U8(x.val()),
        Property::WillDelayInterval(x) => PVal::U32(x.val()),
        Property::RequestResponseInformation(x) => PVal::U8(x.val()),
        Property::ResponseInformation(x) => PVal::Str(x.val().as_bytes().to_vec()),
        Property::ServerReference(x) => PVal::Str(x.val().as_bytes().to_vec()),
        Property::ReasonString(x) => PVal::Str(x.val().as_bytes().to_vec()),
        Property::ReceiveMaximum(x) => PVal::U16(x.val()),
        Property::TopicAliasMaximum(x) => PVal::U16(x.val()),
        Property::TopicAlias(x) => PVal::U16(x.val()),
        Property::MaximumQos(x) => PVal::U8(x.val()),
        Property::RetainAvailable(x) => PVal::U8(x.val()),
        Property::UserProperty(x) => PVal::Pair(x.key().as_bytes().to_vec(), x.val().as_bytes().to_vec()),
        Property::MaximumPacketSize(x) => PVal::U32(x.val()),
        Property::WildcardSubscriptionAvailable(x) => PVal::U8(x.val()),
        Property::SubscriptionIdentifierAvailable(x) => PVal::U8(x.val()),
        Property::SharedSubscriptionAvailable(x) => PVal::U8(x.val()),
    };
    Prop { id, val }
}
pub fn read_props(ps: &[Property]) -> Vec<Prop> {
    ps.iter().map(read_prop).collect()
}

fn pid_of<P: Pid>(v: u32) -> Option<P> {
    P::from_u32(v)
}

/// Drive the public builder of the packet kind with the abstract packet's field values.
pub fn build<P: Pid>(ap: &AP) -> Built<GenericPacket<P>> {
    match ap {
        AP::Connect { ver, clean, keep_alive, client_id, will, user, pass, props } => {
            let cid = tryx!(s(client_id), "non-UTF-8 client id");
            match ver {
                Ver::V4 => {
                    let mut b = v3_1_1::Connect::builder();
                    b = tryb!(b.client_id(cid));
                    b = b.clean_session(*clean).keep_alive(*keep_alive);
                    if let Some(w) = will {
                        let t = tryx!(s(&w.topic), "non-UTF-8 will topic");
                        let q = tryx!(qos_of(w.qos), "will qos 3");
                        b = tryb!(b.will_message(t, w.payload.clone(), q, w.retain));
                    }
                    if let Some(u) = user {
                        b = tryb!(b.user_name(tryx!(s(u), "non-UTF-8 user name")));
                    }
                    if let Some(p) = pass {
                        b = tryb!(b.password(p.clone()));
                    }
                    Built::Ok(tryb!(b.build()).into())
                }
                Ver::V5 => {
                    let mut b = v5_0::Connect::builder();
                    b = tryb!(b.client_id(cid));
                    b = b.clean_start(*clean).keep_alive(*keep_alive);
                    if let Some(w) = will {
                        let t = tryx!(s(&w.topic), "non-UTF-8 will topic");
                        let q = tryx!(qos_of(w.qos), "will qos 3");
                        b = tryb!(b.will_message(t, w.payload.clone(), q, w.retain));
                        if !w.props.is_empty() {
                            let wp = match lib_props(&w.props) {
                                Built::Ok(x) => x,
                                Built::Rejected(e) => return Built::Rejected(e),
                                Built::Inexpressible(m) => return Built::Inexpressible(m),
                            };
                            b = b.will_props(wp);
                        }
                    }
                    if let Some(u) = user {
                        b = tryb!(b.user_name(tryx!(s(u), "non-UTF-8 user name")));
                    }
                    if let Some(p) = pass {
                        b = tryb!(b.password(p.clone()));
                    }
                    if !props.is_empty() {
                        let ps = match lib_props(props) {
                            Built::Ok(x) => x,
                            Built::Rejected(e) => return Built::Rejected(e),
                            Built::Inexpressible(m) => return Built::Inexpressible(m),
                        };
                        b = b.props(ps);
                    }
                    Built::Ok(tryb!(b.build()).into())
                }
            }
        }
        AP::Connack { ver, sp, code, props } => match ver {
            Ver::V4 => {
                let rc = tryx!(ConnectReturnCode::try_from(*code).ok(), "undefined return code");
                Built::Ok(tryb!(v3_1_1::Connack::builder().session_present(*sp).return_code(rc).build()).into())
            }
            Ver::V5 => {
                let rc = tryx!(ConnectReasonCode::try_from(*code).ok(), "undefined reason code");
                let mut b = v5_0::Connack::builder().session_present(*sp).reason_code(rc);
                if !props.is_empty() {
                    let ps = match lib_props(props) {
                        Built::Ok(x) => x,
                        Built::Rejected(e) => return Built::Rejected(e),
                        Built::Inexpressible(m) => return Built::Inexpressible(m),
                    };
                    b = b.props(ps);
                }
                Built::Ok(tryb!(b.build()).into())
            }
        },
        AP::Publish { ver, dup, qos, retain, topic, pid, props, payload } => {
            let t = tryx!(s(topic), "non-UTF-8 topic");
            let q = tryx!(qos_of(*qos), "qos 3");
            match ver {
                Ver::V4 => {
                    let mut b = v3_1_1::GenericPublish::<P>::builder();
                    b = tryb!(b.topic_name(t));
                    b = b.qos(q).dup(*dup).retain(*retain).payload(payload.clone());
                    if let Some(id) = pid {
                        b = b.packet_id(tryx!(pid_of::<P>(*id), "packet id too wide"));
                    }
                    Built::Ok(tryb!(b.build()).into())
                }
                Ver::V5 => {
                    let mut b = v5_0::GenericPublish::<P>::builder();
                    b = tryb!(b.topic_name(t));
                    b = b.qos(q).dup(*dup).retain(*retain).payload(payload.clone());
                    if let Some(id) = pid {
                        b = b.packet_id(tryx!(pid_of::<P>(*id), "packet id too wide"));
                    }
                    if !props.is_empty() {
                        let ps = match lib_props(props) {
                            Built::Ok(x) => x,
                            Built::Rejected(e) => return Built::Rejected(e),
                            Built::Inexpressible(m) => return Built::Inexpressible(m),
                        };
                        b = b.props(ps);
                    }
                    Built::Ok(tryb!(b.build()).into())
                }
            }
        }
        AP::Ack { ver, kind, pid, code, props } => {
            let id: P = tryx!(pid_of::<P>(*pid), "packet id too wide");
            macro_rules! ack4 {
                ($t:ident, $rc:ident) => {{
                    if props.is_some() {
                        return Built::Inexpressible("v3.1.1 ack has no properties".into());
                    }
                    let mut b = v3_1_1::$t::<P>::builder().packet_id(id);
                    if let Some(c) = code {
                        // not part of MQTT v3.1.1, but the library's builder offers it
                        b = b.reason_code(tryx!($rc::try_from(*c).ok(), "undefined reason code"));
                    }
                    Built::Ok(tryb!(b.build()).into())
                }};
            }
            macro_rules! ack5 {
                ($t:ident, $rc:ident) => {{
                    let mut b = v5_0::$t::<P>::builder().packet_id(id);
                    if let Some(c) = code {
                        b = b.reason_code(tryx!($rc::try_from(*c).ok(), "undefined reason code"));
                    }
                    if let Some(ps) = props {
                        let ps = match lib_props(ps) {
                            Built::Ok(x) => x,
                            Built::Rejected(e) => return Built::Rejected(e),
                            Built::Inexpressible(m) => return Built::Inexpressible(m),
                        };
                        b = b.props(ps);
                    }
                    Built::Ok(tryb!(b.build()).into())
                }};
            }
            match (ver, kind) {
                (Ver::V4, AckKind::Puback) => ack4!(GenericPuback, PubackReasonCode),
                (Ver::V4, AckKind::Pubrec) => ack4!(GenericPubrec, PubrecReasonCode),
                (Ver::V4, AckKind::Pubrel) => ack4!(GenericPubrel, PubrelReasonCode),
                (Ver::V4, AckKind::Pubcomp) => ack4!(GenericPubcomp, PubcompReasonCode),
                (Ver::V5, AckKind::Puback) => ack5!(GenericPuback, PubackReasonCode),
                (Ver::V5, AckKind::Pubrec) => ack5!(GenericPubrec, PubrecReasonCode),
                (Ver::V5, AckKind::Pubrel) => ack5!(GenericPubrel, PubrelReasonCode),
                (Ver::V5, AckKind::Pubcomp) => ack5!(GenericPubcomp, PubcompReasonCode),
            }
        }
        AP::Subscribe { ver, pid, props, entries } => {
            let id: P = tryx!(pid_of::<P>(*pid), "packet id too wide");
            let mut es = vec![];
            for (f, o) in entries {
                let f = tryx!(s(f), "non-UTF-8 filter");
                let opts = tryb!(SubOpts::from_u8(*o));
                es.push(tryb!(SubEntry::new(f, opts)));
            }
            match ver {
                Ver::V4 => Built::Ok(tryb!(v3_1_1::GenericSubscribe::<P>::builder().packet_id(id).entries(es).build()).into()),
                Ver::V5 => {
                    let mut b = v5_0::GenericSubscribe::<P>::builder().packet_id(id).entries(es);
                    if !props.is_empty() {
                        let ps = match lib_props(props) {
                            Built::Ok(x) => x,
                            Built::Rejected(e) => return Built::Rejected(e),
                            Built::Inexpressible(m) => return Built::Inexpressible(m),
                        };
                        b = b.props(ps);
                    }
                    Built::Ok(tryb!(b.build()).into())
                }
            }
        }
        AP::Suback { ver, pid, props, codes } => {
            let id: P = tryx!(pid_of::<P>(*pid), "packet id too wide");
            match ver {
                Ver::V4 => {
                    let mut cs = vec![];
                    for c in codes {
                        cs.push(tryx!(SubackReturnCode::try_from(*c).ok(), "undefined return code"));
                    }
                    Built::Ok(tryb!(v3_1_1::GenericSuback::<P>::builder().packet_id(id).return_codes(cs).build()).into())
                }
                Ver::V5 => {
                    let mut cs = vec![];
                    for c in codes {
                        cs.push(tryx!(SubackReasonCode::try_from(*c).ok(), "undefined reason code"));
                    }
                    let mut b = v5_0::GenericSuback::<P>::builder().packet_id(id).reason_codes(cs);
                    if !props.is_empty() {
                        let ps = match lib_props(props) {
                            Built::Ok(x) => x,
                            Built::Rejected(e) => return Built::Rejected(e),
                            Built::Inexpressible(m) => return Built::Inexpressible(m),
                        };
                        b = b.props(ps);
                    }
                    Built::Ok(tryb!(b.build()).into())
                }
            }
        }
        AP::Unsubscribe { ver, pid, props, filters } => {
            let id: P = tryx!(pid_of::<P>(*pid), "packet id too wide");
            let mut fs: Vec<&str> = vec![];
            for f in filters {
                fs.push(tryx!(s(f), "non-UTF-8 filter"));
            }
            match ver {
                Ver::V4 => {
                    let b = tryb!(v3_1_1::GenericUnsubscribe::<P>::builder().packet_id(id).entries(fs));
                    Built::Ok(tryb!(b.build()).into())
                }
                Ver::V5 => {
                    let mut b = tryb!(v5_0::GenericUnsubscribe::<P>::builder().packet_id(id).entries(fs));
                    if !props.is_empty() {
                        let ps = match lib_props(props) {
                            Built::Ok(x) => x,
                            Built::Rejected(e) => return Built::Rejected(e),
                            Built::Inexpressible(m) => return Built::Inexpressible(m),
                        };
                        b = b.props(ps);
                    }
                    Built::Ok(tryb!(b.build()).into())
                }
            }
        }
        AP::Unsuback { ver, pid, props, codes } => {
            let id: P = tryx!(pid_of::<P>(*pid), "packet id too wide");
            match ver {
                Ver::V4 => {
                    if !codes.is_empty() {
                        return Built::Inexpressible("v3.1.1 UNSUBACK has no payload".into());
                    }
                    Built::Ok(tryb!(v3_1_1::GenericUnsuback::<P>::builder().packet_id(id).build()).into())
                }
                Ver::V5 => {
                    let mut cs = vec![];
                    for c in codes {
                        cs.push(tryx!(UnsubackReasonCode::try_from(*c).ok(), "undefined reason code"));
                    }
                    let mut b = v5_0::GenericUnsuback::<P>::builder().packet_id(id).reason_codes(cs);
                    if !props.is_empty() {
                        let ps = match lib_props(props) {
                            Built::Ok(x) => x,
                            Built::Rejected(e) => return Built::Rejected(e),
                            Built::Inexpressible(m) => return Built::Inexpressible(m),
                        };
                        b = b.props(ps);
                    }
                    Built::Ok(tryb!(b.build()).into())
                }
            }
        }
        AP::Pingreq { ver } => match ver {
            Ver::V4 => Built::Ok(tryb!(v3_1_1::Pingreq::builder().build()).into()),
            Ver::V5 => Built::Ok(tryb!(v5_0::Pingreq::builder().build()).into()),
        },
        AP::Pingresp { ver } => match ver {
            Ver::V4 => Built::Ok(tryb!(v3_1_1::Pingresp::builder().build()).into()),
            Ver::V5 => Built::Ok(tryb!(v5_0::Pingresp::builder().build()).into()),
        },
        AP::Disconnect { ver, code, props } => match ver {
            Ver::V4 => {
                if code.is_some() || props.is_some() {
                    return Built::Inexpressible("v3.1.1 DISCONNECT has no body".into());
                }
                Built::Ok(tryb!(v3_1_1::Disconnect::builder().build()).into())
            }
            Ver::V5 => {
                let mut b = v5_0::Disconnect::builder();
                if let Some(c) = code {
                    b = b.reason_code(tryx!(DisconnectReasonCode::try_from(*c).ok(), "undefined reason code"));
                }
                if let Some(ps) = props {
                    let ps = match lib_props(ps) {
                        Built::Ok(x) => x,
                        Built::Rejected(e) => return Built::Rejected(e),
                        Built::Inexpressible(m) => return Built::Inexpressible(m),
                    };
                    b = b.props(ps);
                }
                Built::Ok(tryb!(b.build()).into())
            }
        },
        AP::Auth { code, props } => {
            let mut b = v5_0::Auth::builder();
            if let Some(c) = code {
                b = b.reason_code(tryx!(AuthReasonCode::try_from(*c).ok(), "undefined reason code"));
            }
            if let Some(ps) = props {
                let ps = match lib_props(ps) {
                    Built::Ok(x) => x,
                    Built::Rejected(e) => return Built::Rejected(e),
                    Built::Inexpressible(m) => return Built::Inexpressible(m),
                };
                b = b.props(ps);
            }
            Built::Ok(tryb!(b.build()).into())
        }
    }
}

fn q(qos: Qos) -> u8 {
    match qos {
        Qos::AtMostOnce => 0,
        Qos::AtLeastOnce => 1,
        Qos::ExactlyOnce => 2,
    }
}

/// Read a library packet back into field values through its public accessors only.
pub fn read<P: Pid>(p: &GenericPacket<P>) -> AP {
    use GenericPacket as G;
    match p {
        G::V3_1_1Connect(c) => AP::Connect {
            ver: Ver::V4,
            clean: c.clean_session(),
            keep_alive: c.keep_alive(),
            client_id: c.client_id().as_bytes().to_vec(),
            will: if c.will_flag() {
                Some(Will {
                    topic: c.will_topic().unwrap_or("").as_bytes().to_vec(),
                    payload: c.will_payload().unwrap_or(&[]).to_vec(),
                    qos: q(c.will_qos()),
                    retain: c.will_retain(),
                    props: vec![],
                })
            } else {
                None
            },
            user: c.user_name().map(|x| x.as_bytes().to_vec()),
            pass: c.password().map(|x| x.to_vec()),
            props: vec![],
        },
        G::V5_0Connect(c) => AP::Connect {
            ver: Ver::V5,
            clean: c.clean_start(),
            keep_alive: c.keep_alive(),
            client_id: c.client_id().as_bytes().to_vec(),
            will: if c.will_flag() {
                Some(Will {
                    topic: c.will_topic().unwrap_or("").as_bytes().to_vec(),
                    payload: c.will_payload().unwrap_or(&[]).to_vec(),
                    qos: q(c.will_qos()),
                    retain: c.will_retain(),
                    props: read_props(c.will_props()),
                })
            } else {
                None
            },
            user: c.user_name().map(|x| x.as_bytes().to_vec()),
            pass: c.password().map(|x| x.to_vec()),
            props: read_props(c.props()),
        },
        G::V3_1_1Connack(c) => AP::Connack { ver: Ver::V4, sp: c.session_present(), code: c.return_code() as u8, props: vec![] },
        G::V5_0Connack(c) => AP::Connack { ver: Ver::V5, sp: c.session_present(), code: c.reason_code() as u8, props: read_props(c.props()) },
        G::V3_1_1Publish(c) => AP::Publish {
            ver: Ver::V4,
            dup: c.dup(),
            qos: q(c.qos()),
            retain: c.retain(),
            topic: c.topic_name().as_bytes().to_vec(),
            pid: c.packet_id().map(|x| x.to_u32_()),
            props: vec![],
            payload: c.payload().as_slice().to_vec(),
        },
        G::V5_0Publish(c) => AP::Publish {
            ver: Ver::V5,
            dup: c.dup(),
            qos: q(c.qos()),
            retain: c.retain(),
            topic: c.topic_name().as_bytes().to_vec(),
            pid: c.packet_id().map(|x| x.to_u32_()),
            props: read_props(c.props()),
            payload: c.payload().as_slice().to_vec(),
        },
        G::V3_1_1Puback(c) => AP::Ack { ver: Ver::V4, kind: AckKind::Puback, pid: c.packet_id().to_u32_(), code: c.reason_code().map(|x| x as u8), props: None },
        G::V3_1_1Pubrec(c) => AP::Ack { ver: Ver::V4, kind: AckKind::Pubrec, pid: c.packet_id().to_u32_(), code: c.reason_code().map(|x| x as u8), props: None },
        G::V3_1_1Pubrel(c) => AP::Ack { ver: Ver::V4, kind: AckKind::Pubrel, pid: c.packet_id().to_u32_(), code: c.reason_code().map(|x| x as u8), props: None },
        G::V3_1_1Pubcomp(c) => AP::Ack { ver: Ver::V4, kind: AckKind::Pubcomp, pid: c.packet_id().to_u32_(), code: c.reason_code().map(|x| x as u8), props: None },
        G::V5_0Puback(c) => AP::Ack { ver: Ver::V5, kind: AckKind::Puback, pid: c.packet_id().to_u32_(), code: c.reason_code().map(|x| x as u8), props: c.props().as_ref().map(|x| read_props(x)) },
        G::V5_0Pubrec(c) => AP::Ack { ver: Ver::V5, kind: AckKind::Pubrec, pid: c.packet_id().to_u32_(), code: c.reason_code().map(|x| x as u8), props: c.props().as_ref().map(|x| read_props(x)) },
        G::V5_0Pubrel(c) => AP::Ack { ver: Ver::V5, kind: AckKind::Pubrel, pid: c.packet_id().to_u32_(), code: c.reason_code().map(|x| x as u8), props: c.props().as_ref().map(|x| read_props(x)) },
        G::V5_0Pubcomp(c) => AP::Ack { ver: Ver::V5, kind: AckKind::Pubcomp, pid: c.packet_id().to_u32_(), code: c.reason_code().map(|x| x as u8), props: c.props().as_ref().map(|x| read_props(x)) },
        G::V3_1_1Subscribe(c) => AP::Subscribe {
            ver: Ver::V4,
            pid: c.packet_id().to_u32_(),
            props: vec![],
            entries: c.entries().iter().map(|e| (e.topic_filter().as_bytes().to_vec(), e.sub_opts().to_buffer()[0])).collect(),
        },
        G::V5_0Subscribe(c) => AP::Subscribe {
            ver: Ver::V5,
            pid: c.packet_id().to_u32_(),
            props: read_props(c.props()),
            entries: c.entries().iter().map(|e| (e.topic_filter().as_bytes().to_vec(), e.sub_opts().to_buffer()[0])).collect(),
        },
        G::V3_1_1Suback(c) => AP::Suback { ver: Ver::V4, pid: c.packet_id().to_u32_(), props: vec![], codes: c.return_codes().iter().map(|x| *x as u8).collect() },
        G::V5_0Suback(c) => AP::Suback { ver: Ver::V5, pid: c.packet_id().to_u32_(), props: read_props(c.props()), codes: c.reason_codes().iter().map(|x| *x as u8).collect() },
        G::V3_1_1Unsubscribe(c) => AP::Unsubscribe { ver: Ver::V4, pid: c.packet_id().to_u32_(), props: vec![], filters: c.entries().iter().map(|e| e.as_str().as_bytes().to_vec()).collect() },
        G::V5_0Unsubscribe(c) => AP::Unsubscribe { ver: Ver::V5, pid: c.packet_id().to_u32_(), props: read_props(c.props()), filters: c.entries().iter().map(|e| e.as_str().as_bytes().to_vec()).collect() },
        G::V3_1_1Unsuback(c) => AP::Unsuback { ver: Ver::V4, pid: c.packet_id().to_u32_(), props: vec![], codes: vec![] },
        G::V5_0Unsuback(c) => AP::Unsuback { ver: Ver::V5, pid: c.packet_id().to_u32_(), props: read_props(c.props()), codes: c.reason_codes().iter().map(|x| *x as u8).collect() },
        G::V3_1_1Pingreq(_) => AP::Pingreq { ver: Ver::V4 },
        G::V5_0Pingreq(_) => AP::Pingreq { ver: Ver::V5 },
        G::V3_1_1Pingresp(_) => AP::Pingresp { ver: Ver::V4 },
        G::V5_0Pingresp(_) => AP::Pingresp { ver: Ver::V5 },
        G::V3_1_1Disconnect(_) => AP::Disconnect { ver: Ver::V4, code: None, props: None },
        G::V5_0Disconnect(c) => AP::Disconnect { ver: Ver::V5, code: c.reason_code().map(|x| x as u8), props: c.props().as_ref().map(|x| read_props(x)) },
        G::V5_0Auth(c) => AP::Auth { code: c.reason_code().map(|x| x as u8), props: c.props().as_ref().map(|x| read_props(x)) },
    }
}

/// Call the library parser for (version, type nibble, flags, body) the way `recv` dispatches.
/// Returns the parsed packet and the number of body bytes the parser claims to have consumed.
pub fn parse_body<P: Pid>(ver: Ver, ty: u8, flags: u8, body: &[u8]) -> Option<Result<(GenericPacket<P>, usize), MqttError>> {
    use std::sync::Arc;
    macro_rules! p {
        ($e:expr) => {
            Some($e.map(|(p, n)| (p.into(), n)))
        };
    }
    match (ver, ty) {
        (Ver::V4, 1) => p!(v3_1_1::Connect::parse(body)),
        (Ver::V4, 2) => p!(v3_1_1::Connack::parse(body)),
        (Ver::V4, 3) => p!(v3_1_1::GenericPublish::<P>::parse(flags, Arc::from(body))),
        (Ver::V4, 4) => p!(v3_1_1::GenericPuback::<P>::parse(body)),
        (Ver::V4, 5) => p!(v3_1_1::GenericPubrec::<P>::parse(body)),
        (Ver::V4, 6) => p!(v3_1_1::GenericPubrel::<P>::parse(body)),
        (Ver::V4, 7) => p!(v3_1_1::GenericPubcomp::<P>::parse(body)),
        (Ver::V4, 8) => p!(v3_1_1::GenericSubscribe::<P>::parse(body)),
        (Ver::V4, 9) => p!(v3_1_1::GenericSuback::<P>::parse(body)),
        (Ver::V4, 10) => p!(v3_1_1::GenericUnsubscribe::<P>::parse(body)),
        (Ver::V4, 11) => p!(v3_1_1::GenericUnsuback::<P>::parse(body)),
        (Ver::V4, 12) => p!(v3_1_1::Pingreq::parse(body)),
        (Ver::V4, 13) => p!(v3_1_1::Pingresp::parse(body)),
        (Ver::V4, 14) => p!(v3_1_1::Disconnect::parse(body)),
        (Ver::V5, 1) => p!(v5_0::Connect::parse(body)),
        (Ver::V5, 2) => p!(v5_0::Connack::parse(body)),
        (Ver::V5, 3) => p!(v5_0::GenericPublish::<P>::parse(flags, Arc::from(body))),
        (Ver::V5, 4) => p!(v5_0::GenericPuback::<P>::parse(body)),
        (Ver::V5, 5) => p!(v5_0::GenericPubrec::<P>::parse(body)),
        (Ver::V5, 6) => p!(v5_0::GenericPubrel::<P>::parse(body)),
        (Ver::V5, 7) => p!(v5_0::GenericPubcomp::<P>::parse(body)),
        (Ver::V5, 8) => p!(v5_0::GenericSubscribe::<P>::parse(body)),
        (Ver::V5, 9) => p!(v5_0::GenericSuback::<P>::parse(body)),
        (Ver::V5, 10) => p!(v5_0::GenericUnsubscribe::<P>::parse(body)),
        (Ver::V5, 11) => p!(v5_0::GenericUnsuback::<P>::parse(body)),
        (Ver::V5, 12) => p!(v5_0::Pingreq::parse(body)),
        (Ver::V5, 13) => p!(v5_0::Pingresp::parse(body)),
        (Ver::V5, 14) => p!(v5_0::Disconnect::parse(body)),
        (Ver::V5, 15) => p!(v5_0::Auth::parse(body)),
        _ => None,
    }
}

pub fn lib_bytes<P: Pid>(p: &GenericPacket<P>) -> Vec<u8> {
    p.to_continuous_buffer()
}

pub fn lib_version(v: Option<Ver>) -> mqtt::Version {
    match v {
        None => mqtt::Version::Undetermined,
        Some(Ver::V4) => mqtt::Version::V3_1_1,
        Some(Ver::V5) => mqtt::Version::V5_0,
    }
}
