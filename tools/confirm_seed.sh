#!/bin/bash
# confirm_seed.sh <ID> <worktree>  — independently confirm a seeded change in its scratch worktree:
#   full suite passes with the change, demo fails with it and passes without it.
set -u
ID=$1; WT=$2
cd "$WT" || exit 2
export CARGO_TARGET_DIR="$WT/target"
git diff --quiet -- src && { echo "no src change applied"; exit 2; }
git diff -- src > /tmp/confirm-$ID.diff
echo "== full suite WITH the change (demo moved aside)"
mv tests/seeded_demo.rs /tmp/seeded_demo-$ID.rs
cargo test --workspace --no-fail-fast --offline 2>&1 | grep -E '^test result|FAILED|failed' | awk '/test result/{p+=$4; f+=$6} !/test result/{print} END {print "passed",p,"failed",f}'
mv /tmp/seeded_demo-$ID.rs tests/seeded_demo.rs
echo "== demo WITH the change (expected to fail)"
cargo test --offline --test seeded_demo 2>&1 | grep -E '^test result|^test .* (ok|FAILED)' | tail -8
echo "== demo WITHOUT the change (expected to pass)"
git apply -R /tmp/confirm-$ID.diff && cargo test --offline --test seeded_demo 2>&1 | grep -E '^test result' ; git apply /tmp/confirm-$ID.diff
