#!/usr/bin/env python3
"""Own detection demonstrations: a list of small realistic edits of /repo (given as exact string
replacements). For each: apply it in an isolated scratch copy (worktree of /repo + copy of the
harness pointing at it), (1) run the repository's own suite - a mutant the suite kills is
discarded -, (2) run the designated quick checks, record who catches it. Nothing in /repo or
/verif is modified. Usage: tools/mutants.py [--no-suite] [name-substring ...]
Results: /verif/mutants/RESULTS.md and /verif/mutants/<name>.diff
"""
import subprocess, sys, os, shutil, json, re

CORE = "src/mqtt/connection/core.rs"
M = []
def mut(name, checks, file, old, new, count=1, note=""):
    M.append(dict(name=name, checks=checks, file=file, old=old, new=new, count=count, note=note))

# ---- C06 / C01
mut("c06-no-resend-on-connack-v4", ["C06", "C01", "C16"], CORE,
    "                    // goes out now)\n                    let resent = self.send_stored();",
    "                    // goes out now)\n                    let resent: Vec<GenericEvent<PacketIdType>> = Vec::new();", count=2,
    note="stored packets are not retransmitted when CONNACK(session present) is received")
mut("c06-stored-copy-without-dup", ["C06", "C16"], CORE,
    "                let store_packet = packet.clone().set_dup(true);\n                self.store.add(store_packet.try_into().unwrap()).unwrap();\n            } else {\n                release_packet_id_if_send_error = Some(packet_id);",
    "                let store_packet = packet.clone();\n                self.store.add(store_packet.try_into().unwrap()).unwrap();\n            } else {\n                release_packet_id_if_send_error = Some(packet_id);",
    note="v3.1.1 stored copy lacks DUP")
mut("c06-store-swap-remove", ["C06", "C16"], "src/mqtt/connection/store.rs",
    "            if pkt.response_packet() == response {\n                self.map.shift_remove_index(index);",
    "            if pkt.response_packet() == response {\n                self.map.swap_remove_index(index);",
    note="erase reorders the store")
mut("c06-puback-keeps-store-entry", ["C06", "C16", "C01"], CORE,
    "                if self.pid_puback.remove(&packet_id) {\n                    self.store.erase(ResponsePacket::V5_0Puback, packet_id);",
    "                if self.pid_puback.remove(&packet_id) {",
    note="v5 PUBACK does not erase the stored PUBLISH")
# ---- C07
mut("c07-pubrel-keeps-handled-v4", ["C07", "C01", "C16"], CORE,
    "                let packet_id = packet.packet_id();\n                self.qos2_publish_handled.remove(&packet_id);\n                if self.auto_pub_response && self.status == ConnectionStatus::Connected {\n                    let pubcomp = v3_1_1::GenericPubcomp",
    "                let packet_id = packet.packet_id();\n                if self.auto_pub_response && self.status == ConnectionStatus::Connected {\n                    let pubcomp = v3_1_1::GenericPubcomp",
    note="v3.1.1 PUBREL does not forget the handled id")
mut("c07-qos1-marked-handled", ["C07", "C10", "C16"], CORE,
    "                            Qos::AtLeastOnce => {\n                                let packet_id = packet.packet_id().unwrap();\n                                if self.status == ConnectionStatus::Connected\n                                    && self.auto_pub_response\n                                {",
    "                            Qos::AtLeastOnce => {\n                                let packet_id = packet.packet_id().unwrap();\n                                self.qos2_publish_handled.insert(packet_id);\n                                if self.status == ConnectionStatus::Connected\n                                    && self.auto_pub_response\n                                {",
    note="v3.1.1 QoS 1 ids land in the QoS 2 handled set")
# ---- C08
mut("c08-unsuback-ids-survive-close", ["C08", "C10"], CORE,
    "        for packet_id in self.pid_unsuback.drain() {\n            if self.pid_man.is_used_id(packet_id) {\n                self.pid_man.release_id(packet_id);\n                events.push(GenericEvent::NotifyPacketIdReleased(packet_id));\n            }\n        }",
    "        self.pid_unsuback.clear();",
    note="pending UNSUBSCRIBE ids are not released at close")
mut("c08-release-on-invalid-id", ["C08"], CORE,
    "                error!(\"packet_id {packet_id} must be acquired or registered\");\n                events.push(GenericEvent::NotifyError(\n                    MqttError::PacketIdentifierInvalid,\n                ));\n                return events;\n            }\n            if self.need_store\n                && (self.status != ConnectionStatus::Disconnected || self.offline_publish)\n            {\n                let store_packet = packet.clone().set_dup(true);",
    "                error!(\"packet_id {packet_id} must be acquired or registered\");\n                events.push(GenericEvent::NotifyError(\n                    MqttError::PacketIdentifierInvalid,\n                ));\n                events.push(GenericEvent::NotifyPacketIdReleased(packet_id));\n                return events;\n            }\n            if self.need_store\n                && (self.status != ConnectionStatus::Disconnected || self.offline_publish)\n            {\n                let store_packet = packet.clone().set_dup(true);",
    note="announces a release for an id that is not in use (only reachable by misuse: not expected to be caught by contract-respecting checks)")
# ---- C09
mut("c09-no-reset-after-zero-length", ["C09", "C05", "C01"], "src/mqtt/connection/packet_builder.rs",
    "                            let packet = RawPacket {\n                                fixed_header,\n                                data: packet_data,\n                            };\n                            self.reset();\n                            return PacketBuildResult::Complete(packet);\n                        } else {",
    "                            let packet = RawPacket {\n                                fixed_header,\n                                data: packet_data,\n                            };\n                            self.state = ReadState::FixedHeader;\n                            return PacketBuildResult::Complete(packet);\n                        } else {",
    note="zero-length packets do not reset the header buffer")
# ---- C10
mut("c10-publish-recv-survives", ["C10", "C12"], CORE,
    "        self.publish_recv.clear();\n",
    "", count=2,
    note="inbound flow-control set survives into the next connection")
# ---- C12
mut("c12-inbound-off-by-one", ["C12", "C07"], CORE,
    "                                    if self.publish_recv.len() >= max as usize {",
    "                                    if self.publish_recv.len() > max as usize {",
    note="one PUBLISH more than announced is accepted")
mut("c12-error-pubrec-keeps-count", ["C12"], CORE,
    "                        if self.publish_send_max.is_some() && self.publish_send_count > 0 {\n                            self.publish_send_count -= 1;\n                        }\n                    }\n                    events.extend(self.refresh_pingreq_recv());",
    "                    }\n                    events.extend(self.refresh_pingreq_recv());",
    note="an error PUBREC does not free a slot")
# ---- C13
mut("c13-automap-forgets-registration", ["C13"], CORE,
    "                        if rewritten.size() <= size_limit {\n                            topic_alias_send.insert_or_update(packet.topic_name(), lru_ta);\n                            packet = rewritten;\n                        }",
    "                        if rewritten.size() <= size_limit {\n                            packet = rewritten;\n                        }",
    note="auto-map sends topic+alias (receiver rebinds) but does not record it: a later publish on the alias's old topic is then sent as empty topic + alias and resolves to the wrong topic (I first took this for a harmless negative control; the check was right)")
mut("c13-alias-survives-close", ["C13", "C10"], CORE,
    "        // Clear topic alias management\n        self.topic_alias_send = None;\n        self.topic_alias_recv = None;\n\n        // The peer's Receive Maximum",
    "        // Clear topic alias management\n        self.topic_alias_recv = None;\n\n        // The peer's Receive Maximum",
    note="send-side alias table survives notify_closed (initialize() resets it on the next CONNECT sent/received, but a server's table is only replaced when the new CONNECT carries a Topic Alias Maximum)")
# ---- C14
mut("c14-limit-off-by-one", ["C14"], CORE,
    "        if size > self.maximum_packet_size_send as usize {\n            error!(\"packet size over maximum_packet_size for sending\");",
    "        if size > self.maximum_packet_size_send as usize + 1 {\n            error!(\"packet size over maximum_packet_size for sending\");",
    note="one byte over the peer's limit is accepted")
mut("c14-resume-ignores-limit", ["C14", "C06"], CORE,
    "            if packet.size() > self.maximum_packet_size_send as usize {\n                let packet_id = packet.packet_id();",
    "            if false && packet.size() > self.maximum_packet_size_send as usize {\n                let packet_id = packet.packet_id();",
    note="oversize stored packets are retransmitted")
mut("c14-inbound-compares-remaining-length", ["C14"], CORE,
    "        let total_size = remaining_length_to_total_size(raw_packet.remaining_length());\n        if total_size > self.maximum_packet_size_recv {",
    "        let total_size = raw_packet.remaining_length();\n        if total_size > self.maximum_packet_size_recv {",
    note="inbound limit tested against the Remaining Length instead of the total size")
# ---- C15
mut("c15-recv-timeout-factor-2", ["C15"], CORE,
    "                    self.pingreq_recv_timeout_ms = (packet.keep_alive() as u64) * 1000 * 3 / 2;\n                }\n                if packet.clean_session() {",
    "                    self.pingreq_recv_timeout_ms = (packet.keep_alive() as u64) * 1000 * 2;\n                }\n                if packet.clean_session() {",
    note="v3.1.1 server waits 2 x keep alive")
mut("c15-override-ignored", ["C15"], CORE,
    "            if let Some(timeout_ms) = self.pingreq_user_send_interval_ms {\n                // Priority 1\n                ms = timeout_ms;\n            } else if let Some(timeout_ms) = self.pingreq_server_keep_alive_ms {",
    "            if let Some(timeout_ms) = self.pingreq_server_keep_alive_ms {",
    note="application override of the PINGREQ interval is ignored when re-arming")
mut("c15-cancel-keeps-recv-flag", ["C15", "C10"], CORE,
    "        if self.pingreq_recv_set {\n            self.pingreq_recv_set = false;\n            events.push(GenericEvent::RequestTimerCancel(TimerKind::PingreqRecv));\n        }\n        if self.pingresp_recv_set {",
    "        if self.pingreq_recv_set {\n            events.push(GenericEvent::RequestTimerCancel(TimerKind::PingreqRecv));\n        }\n        if self.pingresp_recv_set {",
    note="cancel_timers leaves pingreq_recv_set true: a second cancel for an unarmed timer follows")
# ---- C16
mut("c16-restore-without-register", ["C16", "C08"], CORE,
    "                GenericStorePacket::V3_1_1Pubrel(p) => {\n                    // Register packet ID, then track the expected PUBCOMP and add to store.\n                    // A packet whose ID is already in use is skipped entirely.\n                    let packet_id = p.packet_id();\n                    if self.pid_man.register_id(packet_id).is_ok() {",
    "                GenericStorePacket::V3_1_1Pubrel(p) => {\n                    // Register packet ID, then track the expected PUBCOMP and add to store.\n                    // A packet whose ID is already in use is skipped entirely.\n                    let packet_id = p.packet_id();\n                    if !self.pid_man.is_used_id(packet_id) {",
    note="restored v3.1.1 PUBREL ids are not registered as in use")
# ---- C17
mut("c17-accept-level-3", ["C17", "C05"], CORE,
    "                            4 => {\n                                self.protocol_version = Version::V3_1_1;",
    "                            3 | 4 => {\n                                self.protocol_version = Version::V3_1_1;",
    note="an undetermined server adopts v3.1.1 for protocol level 3")
mut("c17-server-accepts-pingresp", ["C17"], CORE,
    "                packet_type == 13 || // PINGRESP\n",
    "",
    note="a server no longer refuses PINGRESP")
# ---- C18
mut("c18-disconnect-without-server-reference", ["C18", "C04"], "src/mqtt/packet/v5_0/disconnect.rs",
    "            Property::ServerReference(_) => count_server_reference += 1,\n",
    "",
    note="DISCONNECT rejects the Server Reference property")
mut("c18-connack-two-reason-strings", ["C18"], "src/mqtt/packet/v5_0/connack.rs",
    "        || count_reason_string > 1\n", "        || count_reason_string > 2\n",
    note="CONNACK accepts two Reason Strings")
mut("c18-topic-alias-zero", ["C18", "C04", "C05"], "src/mqtt/packet/property.rs",
    "mqtt_property_u16!(\n    TopicAlias,\n    PropertyId::TopicAlias,\n    Some(|v| {\n        if v == 0 {\n            Err(MqttError::ProtocolError)\n        } else {\n            Ok(())\n        }\n    })\n);",
    "mqtt_property_u16!(\n    TopicAlias,\n    PropertyId::TopicAlias,\n    None::<U16Validator>\n);",
    note="Topic Alias 0 accepted")
# ---- C19
mut("c19-close-before-disconnect-v5", ["C19", "C15"], CORE,
    "        self.apply_disconnect_session_expiry(packet.props());\n        self.status = ConnectionStatus::Disconnected;\n        self.cancel_timers(&mut events);\n        events.push(GenericEvent::RequestSendPacket {\n            packet: packet.into(),\n            release_packet_id_if_send_error: None,\n        });\n        events.push(GenericEvent::RequestClose);\n",
    "        self.apply_disconnect_session_expiry(packet.props());\n        self.status = ConnectionStatus::Disconnected;\n        self.cancel_timers(&mut events);\n        events.push(GenericEvent::RequestClose);\n        events.push(GenericEvent::RequestSendPacket {\n            packet: packet.into(),\n            release_packet_id_if_send_error: None,\n        });\n",
    note="v5 DISCONNECT: close requested before the packet")
mut("c19-pingresp-timeout-no-close-v4", ["C19", "C15"], CORE,
    "            TimerKind::PingrespRecv => {\n                // Reset timer flag\n                self.pingresp_recv_set = false;\n\n                match self.protocol_version {\n                    Version::V3_1_1 => {\n                        // V3.1.1: Close connection\n                        events.push(GenericEvent::RequestClose);\n                    }",
    "            TimerKind::PingrespRecv => {\n                // Reset timer flag\n                self.pingresp_recv_set = false;\n\n                match self.protocol_version {\n                    Version::V3_1_1 => {\n                        // V3.1.1: Close connection\n                    }",
    note="v3.1.1 PINGRESP timeout does not close")
mut("c19-refusing-connack-close-first", ["C19"], CORE,
    "        let rc = packet.return_code();\n        let session_present = packet.session_present();\n        events.push(GenericEvent::RequestSendPacket {\n            packet: packet.into(),\n            release_packet_id_if_send_error: None,\n        });\n        if rc != ConnectReturnCode::Accepted {\n            self.status = ConnectionStatus::Disconnected;\n            self.cancel_timers(&mut events);\n            events.push(GenericEvent::RequestClose);\n            return events;\n        }",
    "        let rc = packet.return_code();\n        let session_present = packet.session_present();\n        if rc != ConnectReturnCode::Accepted {\n            self.status = ConnectionStatus::Disconnected;\n            self.cancel_timers(&mut events);\n            events.push(GenericEvent::RequestClose);\n            events.push(GenericEvent::RequestSendPacket {\n                packet: packet.into(),\n                release_packet_id_if_send_error: None,\n            });\n            return events;\n        }\n        events.push(GenericEvent::RequestSendPacket {\n            packet: packet.into(),\n            release_packet_id_if_send_error: None,\n        });",
    note="v3.1.1 refusing CONNACK after the close request")
# ---- C20
mut("c20-allocate-largest", ["C20", "C08"], "src/mqtt/common/value_allocator.rs",
    "        let iv = self.pool.iter().next()?.clone();\n        let value = iv.low();",
    "        let iv = self.pool.iter().next_back()?.clone();\n        let value = iv.low();",
    note="allocate takes from the last interval")
mut("c20-use-value-drops-right-part", ["C20", "C08"], "src/mqtt/common/value_allocator.rs",
    "            if value < iv.high {\n                self.pool\n                    .insert(ValueInterval::new_range(value + T::one(), iv.high()));\n            }\n            true",
    "            if value < iv.high && iv.low < value {\n                self.pool\n                    .insert(ValueInterval::new_range(value + T::one(), iv.high()));\n            }\n            true",
    note="use_value(low of an interval) loses the rest of the interval")
mut("c20-merge-left-off-by-one", ["C20"], "src/mqtt/common/value_allocator.rs",
    "            (Some(l), _) if l.high + T::one() == value => {\n                self.pool.remove(&l);\n                self.pool.insert(ValueInterval::new_range(l.low, value));",
    "            (Some(l), _) if l.high + T::one() == value => {\n                self.pool.remove(&l);\n                self.pool.insert(ValueInterval::new_range(l.low, l.high));",
    note="left merge forgets the released value")
# ---- C02 / C03 / C04
mut("c03-keepalive-little-endian", ["C03", "C02"], "src/mqtt/packet/v5_0/connect.rs",
    "u16::from_be_bytes(self.keep_alive_buf)", "u16::from_le_bytes(self.keep_alive_buf)",
    note="accessor reads keep alive little-endian (builder writes big-endian)")
mut("c04-vbi-five-bytes", ["C04", "C09"], "src/mqtt/packet/variable_byte_integer.rs",
    "        for (i, &b) in buf.iter().take(4).enumerate() {", "        for (i, &b) in buf.iter().take(5).enumerate() {",
    note="decode_stream reads a fifth byte")
mut("c04-string-without-utf8-check", ["C04", "C05"], "src/mqtt/packet/mqtt_string.rs",
    "        if core::str::from_utf8(&data[2..2 + string_len]).is_err() {", "        if false && core::str::from_utf8(&data[2..2 + string_len]).is_err() {",
    note="MqttString::decode accepts ill-formed UTF-8")
mut("c13-lru-peek-negative-control", ["C13", "C14"], CORE,
    "        // LRU updated here\n        let topic = topic_alias_send.get(topic_alias)?;", "        // LRU updated here\n        let topic = topic_alias_send.peek(topic_alias)?;",
    note="NEGATIVE CONTROL: the LRU order is not refreshed on use; a different eviction victim is still correct for the receiver - no check may alarm")

# ---- second batch
mut("c10-receive-maximum-survives", ["C10", "C12"], CORE,
    "        self.publish_send_max = None;\n        self.publish_recv_max = None;\n        self.publish_send_count = 0;",
    "        self.publish_recv_max = None;\n        self.publish_send_count = 0;",
    note="(equivalent since the repair 'notify_closed() forgets the peer's Receive Maximum': the value is already gone when the next CONNECT runs) NEGATIVE CONTROL - no check may alarm")
mut("c10-server-keep-alive-survives", ["C10", "C15"], CORE,
    "        self.pingreq_keep_alive_ms = 0;\n        self.pingreq_server_keep_alive_ms = None;",
    "        self.pingreq_keep_alive_ms = 0;", count=2,
    note="Server Keep Alive of the previous connection overrides the next CONNECT's keep alive")
mut("c10-recv-size-limit-survives", ["C10", "C14"], CORE,
    "        // Reset packet size limits to MQTT protocol maximum\n        self.maximum_packet_size_send = MQTT_PACKET_SIZE_NO_LIMIT;\n        self.maximum_packet_size_recv = MQTT_PACKET_SIZE_NO_LIMIT;\n",
    "        // Reset packet size limits to MQTT protocol maximum\n        self.maximum_packet_size_send = MQTT_PACKET_SIZE_NO_LIMIT;\n",
    note="the locally announced Maximum Packet Size of the previous connection is still enforced on the next one")
mut("c10-any-role-keeps-side", ["C10", "C15", "C17"], CORE,
    "        self.pid_unsuback.clear();\n        self.is_client = is_client;",
    "        self.pid_unsuback.clear();\n        self.is_client |= is_client;",
    note="a connection of role Any that once acted as a client keeps client timer behaviour when it later accepts a CONNECT")
mut("c09-error-without-reset", ["C09", "C05"], "src/mqtt/connection/packet_builder.rs",
    "                    if self.multiplier == 128 * 128 * 128 && (encoded_byte & 0x80) != 0 {\n                        self.reset();",
    "                    if self.multiplier == 128 * 128 * 128 && (encoded_byte & 0x80) != 0 {",
    note="an over-long Remaining Length is reported but the builder is not reset: framing does not resume at the next byte")
mut("c09-offset-not-reset", ["C09", "C01"], "src/mqtt/connection/packet_builder.rs",
    "                            self.raw_buf = Some(Vec::with_capacity(self.remaining_length));\n                            self.raw_buf_offset = 0;",
    "                            self.raw_buf = Some(Vec::with_capacity(self.remaining_length));",
    note="(expected equivalent: reset() already zeroes the offset) NEGATIVE CONTROL - no check may alarm")
mut("c11-auth-any-state", ["C11"], CORE,
    "        if self.status == ConnectionStatus::Disconnected {\n            return vec![GenericEvent::NotifyError(MqttError::PacketNotAllowedToSend)];\n        }\n\n        let mut events = Vec::new();\n        events.push(GenericEvent::RequestSendPacket {\n            packet: packet.into(),\n            release_packet_id_if_send_error: None,\n        });\n        self.send_post_process(&mut events);\n\n        events\n    }\n\n    fn send_post_process",
    "        let mut events = Vec::new();\n        events.push(GenericEvent::RequestSendPacket {\n            packet: packet.into(),\n            release_packet_id_if_send_error: None,\n        });\n        self.send_post_process(&mut events);\n\n        events\n    }\n\n    fn send_post_process",
    note="AUTH may be sent while disconnected")
mut("c06-oversize-drop-keeps-pubrec-set", ["C06", "C08", "C14"], CORE,
    "                self.pid_puback.remove(&packet_id);\n                self.pid_pubrec.remove(&packet_id);\n                self.pid_pubcomp.remove(&packet_id);",
    "                self.pid_puback.remove(&packet_id);\n                self.pid_pubcomp.remove(&packet_id);",
    note="an oversize QoS 2 PUBLISH dropped on resume keeps waiting for PUBREC: a late PUBREC is then 'matching'")
mut("c12-resume-count-forgets-pubcomp", ["C12", "C08"], CORE,
    "            let incomplete = self.pid_puback.len() + self.pid_pubrec.len() + self.pid_pubcomp.len();\n            self.publish_send_count = incomplete.min(u16::MAX as usize) as u16;\n        }\n\n        events",
    "            let incomplete = self.pid_puback.len() + self.pid_pubrec.len();\n            self.publish_send_count = incomplete.min(u16::MAX as usize) as u16;\n        }\n\n        events",
    note="exchanges awaiting PUBCOMP are not counted against Receive Maximum on resume")

mut("c14-total-size-boundary-128", ["C14"], CORE,
    "    let remaining_length_bytes = if remaining_length < 128 {", "    let remaining_length_bytes = if remaining_length <= 128 {",
    note="received packet size computed with a one-byte length field for Remaining Length 128")
mut("c06-offline-flag-mid-session", ["C08", "C06"], CORE,
    "        if self.offline_publish && self.status == ConnectionStatus::Disconnected {", "        if self.offline_publish {",
    note="set_offline_publish(true) on a live non-persistent connection marks it as storing")

ROOT = "/tmp/mutants-scratch"
REPO = f"{ROOT}/repo"
MC = f"{ROOT}/mc"
VROOT = f"{ROOT}/vroot"

def sh(cmd, cwd=None, timeout=3600):
    return subprocess.run(cmd, shell=True, cwd=cwd, capture_output=True, text=True, errors='replace', timeout=timeout)

def setup():
    if not os.path.exists(REPO):
        os.makedirs(ROOT, exist_ok=True)
        sh(f"git -C /repo worktree add --detach {REPO} HEAD")
    else:
        sh("git checkout -- . && git checkout --detach -q $(git -C /repo rev-parse HEAD)", cwd=REPO)
    shutil.rmtree(MC, ignore_errors=True)
    os.makedirs(MC)
    for f in ["Cargo.toml", "Cargo.lock", "src", ".cargo"]:
        s = f"/verif/mc/{f}"
        (shutil.copytree if os.path.isdir(s) else shutil.copy)(s, f"{MC}/{f}")
    t = open(f"{MC}/Cargo.toml").read().replace('path = "/repo"', f'path = "{REPO}"')
    open(f"{MC}/Cargo.toml", "w").write(t)
    os.makedirs(f"{VROOT}/evidence", exist_ok=True)
    os.makedirs(f"{VROOT}/replays", exist_ok=True)
    shutil.copy("/verif/known_findings.json", VROOT)

def main():
    args = [a for a in sys.argv[1:] if not a.startswith("--")]
    no_suite = "--no-suite" in sys.argv
    setup()
    os.makedirs("/verif/mutants", exist_ok=True)
    rows = []
    for m in M:
        if m["old"] is None:
            continue
        if args and not any(a in m["name"] for a in args):
            continue
        path = f"{REPO}/{m['file']}"
        src = open(path).read()
        n = src.count(m["old"])
        if n != m["count"]:
            rows.append((m["name"], "PATTERN-MISMATCH (%d)" % n, "", m["note"]))
            print(m["name"], "pattern mismatch", n)
            continue
        open(path, "w").write(src.replace(m["old"], m["new"]))
        diff = sh("git diff", cwd=REPO).stdout
        open(f"/verif/mutants/{m['name']}.diff", "w").write(diff)
        suite = "not run"
        if not no_suite:
            r = sh(f"CARGO_TARGET_DIR={ROOT}/target-repo cargo test --workspace --no-fail-fast --offline 2>&1 | grep -E '^test result|^error' ", cwd=REPO)
            fails = sum(int(x) for x in re.findall(r"(\d+) failed", r.stdout))
            passed = sum(int(x) for x in re.findall(r"(\d+) passed", r.stdout))
            suite = "does not compile" if "error" in r.stdout and passed == 0 else f"{passed} passed, {fails} failed"
        b = sh(f"cargo build --release --offline --target-dir {ROOT}/target-mc 2>&1 | tail -3", cwd=MC)
        caught, silent = [], []
        if "error" in b.stdout:
            caught.append("harness build fails (machinery error, not a verdict)")
        else:
            for c in m["checks"]:
                r = sh(f"VERIF_ROOT={VROOT} {ROOT}/target-mc/release/mqttmc check {c} --tier quick 2>&1", cwd=MC)
                sigs = re.findall(r"signature=(.*)", r.stdout)
                if r.returncode == 1:
                    caught.append(f"{c} ({sigs[0][:70] if sigs else ''})")
                elif r.returncode == 0:
                    silent.append(c)
                else:
                    caught.append(f"{c} exit {r.returncode} (machinery)")
        sh("git checkout -- .", cwd=REPO)
        rows.append((m["name"], suite, "caught by: " + ("; ".join(caught) if caught else "-") + (" | silent: " + ",".join(silent) if silent else ""), m["note"]))
        print(rows[-1], flush=True)
    jp = "/verif/mutants/results.json"
    allrows = json.load(open(jp)) if os.path.exists(jp) else {}
    for name, suite, res, note in rows:
        if suite == "not run" and name in allrows and allrows[name][0] != "not run":
            suite = allrows[name][0].replace(" (earlier run)", "") + " (earlier run)"
        allrows[name] = [suite, res, note]
    json.dump(allrows, open(jp, "w"), indent=1)
    order = [m["name"] for m in M]
    rows = [(n, *allrows[n]) for n in order if n in allrows]
    with open("/verif/mutants/RESULTS.md", "w") as f:
        f.write("# Own detection demonstrations (tools/mutants.py)\n\nEach row: a small edit of /repo applied in an isolated scratch copy; result of the repository's own suite with the edit; which quick checks report it.\n\n| mutant | what | repository suite | checks |\n|---|---|---|---|\n")
        for name, suite, res, note in rows:
            f.write(f"| {name} | {note} | {suite} | {res} |\n")
    print("written /verif/mutants/RESULTS.md")

if __name__ == "__main__":
    main()
