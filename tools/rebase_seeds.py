#!/usr/bin/env python3
"""rebase_seeds.py : keep every seeded/<dir>/patch.diff applicable to /repo's HEAD.
For a patch that no longer applies: check out its recorded base_commit in a scratch worktree, apply,
commit, cherry-pick onto HEAD; on success rewrite patch.diff and base_commit. Conflicts are reported."""
import json, os, subprocess, glob, shutil
def sh(c, cwd=None):
    return subprocess.run(c, shell=True, cwd=cwd, capture_output=True, text=True)
head = sh("git -C /repo rev-parse HEAD").stdout.strip()
for d in sorted(glob.glob("/verif/seeded/*/")):
    p = d + "patch.diff"
    if sh(f"git -C /repo apply --check {p}").returncode == 0:
        m = json.load(open(d + "meta.json"))
        continue
    m = json.load(open(d + "meta.json"))
    wt = "/tmp/rebase-seed"
    sh(f"git -C /repo worktree remove --force {wt}"); shutil.rmtree(wt, ignore_errors=True)
    r = sh(f"git -C /repo worktree add --detach {wt} {m['base_commit']}")
    ok = False
    if sh(f"git apply {p}", cwd=wt).returncode == 0:
        sh("git -c user.name=x -c user.email=x@x commit -qam seed", cwd=wt)
        seed = sh("git rev-parse HEAD", cwd=wt).stdout.strip()
        sh(f"git checkout -q --detach {head}", cwd=wt)
        r = sh(f"git -c user.name=x -c user.email=x@x cherry-pick {seed}", cwd=wt)
        if r.returncode == 0:
            diff = sh("git diff HEAD~1 HEAD -- src", cwd=wt).stdout
            open(p, "w").write(diff)
            m["base_commit"] = head
            m["notes"] = (m.get("notes") or "") + " [patch.diff re-based onto the current HEAD by tools/rebase_seeds.py]"
            json.dump(m, open(d + "meta.json", "w"), indent=1)
            ok = True
        else:
            sh("git cherry-pick --abort", cwd=wt)
    print(os.path.basename(d.rstrip('/')), "rebased" if ok else "CONFLICT - needs a manual rebase")
    sh(f"git -C /repo worktree remove --force {wt}")
sh("git -C /repo worktree prune")
