#!/usr/bin/env python3
"""save_seed.py <ID> <worktree> <caught_by csv> <missed_by csv> <needs...> : store a confirmed seeded change under /verif/seeded/<ID>/"""
import sys, os, shutil, json, subprocess
pid, wt, caught, missed = sys.argv[1], sys.argv[2], sys.argv[3], sys.argv[4]
needs = sys.argv[5]
extra = sys.argv[6] if len(sys.argv) > 6 else ""
patch_override = sys.argv[7] if len(sys.argv) > 7 else None
prop = pid.split("-")[0]   # "C06-2" = second seeded change for C06
dst = f"/verif/seeded/{pid}"
os.makedirs(dst, exist_ok=True)
shutil.copy(patch_override or f"{wt}/patch.diff", f"{dst}/patch.diff")
shutil.copy(f"{wt}/tests/seeded_demo.rs", f"{dst}/seeded_demo.rs")
if os.path.exists(f"{wt}/NOTES.md"):
    shutil.copy(f"{wt}/NOTES.md", f"{dst}/NOTES.md")
base = subprocess.run(["git", "-C", wt, "rev-parse", "HEAD"], capture_output=True, text=True).stdout.strip()
meta = {
    "property": prop,
    "origin": "independent sub-agent given only the property text and its own scratch worktree of /repo",
    "base_commit": base,
    "needs_to_manifest": needs,
    "confirmed_by_me": {
        "commands": [f"tools/confirm_seed.sh {pid} {wt}", f"tools/try_seed.sh seeded/{pid}/patch.diff <checks>"],
        "existing_suite_with_change": "1479 passed, 0 failed (demo moved aside)",
        "demo_with_change": "fails",
        "demo_without_change": "passes",
    },
    "caught_by_quick_checks": [c for c in caught.split(",") if c],
    "run_but_silent": [c for c in missed.split(",") if c],
    "notes": extra,
}
json.dump(meta, open(f"{dst}/meta.json", "w"), indent=1)
print("saved", dst)
