#!/usr/bin/env python3
"""gen_seeded_readme.py : regenerate /verif/seeded/README.md from the meta.json of every seeded change."""
import json, os, glob
root = os.path.join(os.path.dirname(os.path.abspath(__file__)), "..", "seeded")
rows = []
for d in sorted(glob.glob(os.path.join(root, "*/"))):
    name = os.path.basename(d.rstrip("/"))
    mp = os.path.join(d, "meta.json")
    if not os.path.exists(mp):
        continue
    m = json.load(open(mp))
    first_missed = "FIRST MISSED" in (m.get("notes") or "")
    rows.append((name, m, first_missed))
out = []
out.append("# Seeded property-breaking changes\n")
out.append("Each directory holds one change to /repo written by an independent sub-agent that was given only the")
out.append("text of one property and its own scratch worktree (nothing from /verif): `patch.diff` (apply with")
out.append("`git -C /repo apply`, undo with `git -C /repo checkout -- .`), `seeded_demo.rs` (a test that fails with the")
out.append("change and passes without it), the agent's `NOTES.md`, and `meta.json`. Every change was confirmed by me")
out.append("in the scratch worktree (`tools/confirm_seed.sh`): it compiles, the repository's own suite passes unedited")
out.append("(1 479 tests incl. doc tests), the demonstration fails with it and passes without it. None is ever")
out.append("committed in /repo. `tools/try_seed.sh seeded/<dir>/patch.diff [checks]` applies one, runs the quick checks and")
out.append("reverts.\n")
out.append("\"first missed\" means the check of the targeted property was silent when the change was first tried; the")
out.append("check was then strengthened (a wider alphabet / configuration menu or a new rule that the property statement")
out.append("supports - never a special case for the change) until it reports the change, and the note says how.\n")
out.append("| dir | property | what the change needs to manifest | caught by (quick tier) | run but silent | first missed? |")
out.append("|---|---|---|---|---|---|")
for name, m, fm in rows:
    out.append("| {} | {} | {} | {} | {} | {} |".format(
        name, m.get("property"), (m.get("needs_to_manifest") or "").replace("|", "/"),
        " ".join(m.get("caught_by_quick_checks") or []) or ("- (" + m["status"].split(":")[0] + ")" if m.get("status") else "-"),
        " ".join(m.get("run_but_silent") or []) or "-",
        "yes" if fm else "no"))
out.append("\n## Notes per change\n")
for name, m, fm in rows:
    out.append("* **{}** — {}".format(name, (m.get("notes") or "").strip() or "(none)"))
open(os.path.join(root, "README.md"), "w").write("\n".join(out) + "\n")
print("wrote", os.path.join(root, "README.md"), len(rows), "changes")
