#!/bin/bash
# try_seed.sh <patch.diff> [check ids...]  — apply a seeded change to /repo, run quick checks, revert.
set -u
PATCH=$(readlink -f "$1"); shift
CHECKS=${@:-C01 C02 C03 C04 C05 C06 C07 C08 C09 C10 C11 C12 C13 C14 C15 C16 C17 C18 C19 C20}
cd /repo && git diff --quiet || { echo "/repo is dirty"; exit 2; }
git apply "$PATCH" || { echo "patch does not apply"; exit 2; }
mkdir -p /tmp/seedrep && cp -r /verif/replays /tmp/seedrep/replays.bak
for c in $CHECKS; do
  OUT=$(cd /verif && ./check $c quick 2>&1)
  RC=$?
  N=$(echo "$OUT" | grep -c '^VIOLATION')
  echo "$c exit=$RC violations=$N $(echo "$OUT" | grep -E 'signature=' | head -3 | sed 's/.*signature=//' | tr '\n' ';')"
  [ $RC -ge 2 ] && echo "$OUT" | grep -E 'MACHINERY' | head -3
done
cd /repo && git checkout -- . 
# restore committed replays (drop the ones the seeded run produced)
rm -rf /verif/replays && mv /tmp/seedrep/replays.bak /verif/replays
(cd /verif && git checkout -- evidence 2>/dev/null)
