#!/usr/bin/env python3
"""Regenerates /verif/MANIFEST.json from the table below (single source of truth)."""
import json, os, subprocess
ROOT = os.path.dirname(os.path.dirname(os.path.abspath(__file__)))

MC = "model_checking"
EX = "exploration"
# id -> (engine, level, technique, level text, level note, design ref)
CHECKS = {
 "C20": ("ALLOC", MC, "explicit-state closure of the real ValueAllocator against a BTreeSet model",
   "All reachable (interval list, free set) states of the real ValueAllocator<u8|u16|u32> on ranges of size 1..5 (thorough 1..8) placed at 0, 1, mid-type and the type maximum are enumerated to closure (2^n states each); from every state every operation and query of the alphabet is executed on the real object and on a BTreeSet model; answers and the representation invariant (sorted, disjoint, maximally merged, function of the free set) are compared on every transition. Plus deterministic scripted full-range paths on u16/u32.",
   "Bounded to small ranges (the split/merge code is value-independent apart from the type extremes, which are placed explicitly); trusts the verif_intervals hook, the BTreeSet model and catch_unwind with overflow checks.",
   "DESIGN.md §3 C20"),
}
CHECKS["C09"] = ("FRAME", MC, "exhaustive enumeration of stream partitions against the real PacketBuilder and a real connected server",
   "Every stream made of 1..3 frames from a 12-frame alphabet (zero-length bodies, PUBLISH/Arc and non-PUBLISH/Vec paths, 1-, 2- (thorough: 3-) byte Remaining Length, non-minimal Remaining Length, 5-byte Remaining Length errors, reserved type nibbles) is fed to the real PacketBuilder and to a real connected v3.1.1 and v5.0 server under every composition of the stream (streams <= 13 bytes; thorough <= 17) or every subset of a boundary-centred cut set; the result sequence must equal the refcodec framing of the whole stream and the whole-frame-per-call feeding, the cursor must stop exactly at each frame end, and one recv call may deliver at most one packet.",
   "Bounded to 3 frames per stream and the stated cut sets for long streams; the builder has 3 control states and its transition relation is covered (state x input-byte class); trusts the refcodec framing function.",
   "DESIGN.md §3 C09")
CHECKS["C06"] = ("EXPLORE", MC, "explicit-state BFS of the real connection object against a store / packet-id reference model",
   "For client, server and any-role connections, v3.1.1 and v5.0, automatic and manual responses, offline publishing on and off (plus v5 alias / Maximum Packet Size configurations), all histories over publishes QoS 0/1/2 in every status, every PUBACK/PUBREC/PUBCOMP for ids 1..2 (thorough 1..3; matching, wrong kind, wrong id, duplicate, v5 error codes), deferred manual PUBREL, erase, a second CONNACK, close and reconnect (clean / persistent, session present or not) are explored breadth-first on the real object to closure (window 2, thorough 3); on every transition the store model is compared with get_stored_packets() decoded by the reference codec, unexpected acknowledgements must be refused without changing session state, and the retransmission list after CONNACK must equal the model list (order, ids, DUP, full topic, no alias, oversize dropped).",
   "Bounded by the in-flight window and the alphabets listed in the evidence; two v5 alias configurations stop at a state cap in the quick tier (reported as bounded). Application contract of DESIGN §2.4. Trusts the verif_state hook, the reference codec and the reference model in rules.rs.",
   "DESIGN.md §3 C06")
_EP_NOTE = "Bounded by the in-flight window and the alphabets / configuration grid listed in the evidence; application contract of DESIGN §2.4. Trusts the verif_state hook, the reference codec and the reference model in rules.rs."
def _ep(pid, text, ref):
    CHECKS[pid] = ("EXPLORE", MC, "explicit-state BFS of the real connection object against a reference model", text, _EP_NOTE, ref)
_ep("C07", "Closure (all reachable states) of client/server/any connections, v3.1.1 and v5.0, automatic and manual responses, under peer QoS 2 PUBLISH ids 1..2 (DUP 0/1; v5 also frames that fail validation: unknown alias, Receive Maximum excess), PUBREL ids 1..3, local PUBREC success/error, close, clean / resumed / session-not-present reconnects; on every transition the exactly-once model (notified-since-last-PUBREL per id) decides whether the PUBLISH must be notified, suppressed + answered with PUBREC, or is refused, and get_qos2_publish_handled() must equal the model set.", "DESIGN.md §3 C07")
_ep("C08", "Closure of the real connection against a packet-id ownership model: acquire / register / release for ids {0,1,2,3,max}, sends of PUBLISH QoS1/2, SUBSCRIBE, UNSUBSCRIBE in every status and under every refusal reason of the alphabet (not connected, too large, Receive Maximum, alias out of range, transport send failure), acknowledgements for ids 1..3, deferred PUBREL, close, clean/resumed reconnect; every NotifyPacketIdReleased must hit an in-use id exactly when the model says the exchange ended, and the snapshot's in-use set must equal the model set after every step. Plus scripted exhaustion of all 65 535 ids and u32 extremes.", "DESIGN.md §3 C08")
_ep("C12", "Closure for peer Receive Maximum M in {1,2} (thorough {1,2,3}) and own maximum {1,2}: publishes QoS1/2 at and below the limit, success / error acknowledgements, erase, close, resume with stored packets, offline publishing; the flow model (incomplete exchanges of this connection incl. retransmitted ones) decides accept / ReceiveMaximumExceeded and the vacancy after every step; inbound excess must be answered with DISCONNECT 0x93. M = 65535 by one scripted path.", "DESIGN.md §3 C12")
_ep("C13", "Closure for v5 client and server senders with peer Topic Alias Maximum 0/1/2 in manual, auto-map and auto-replace mode (Receive Maximum 1 so refusals interleave): every transmitted PUBLISH is resolved against an independent model of the receiver's alias table and must resolve to the topic the application asked for; stored copies carry the full topic and no alias; receive side: aliased PUBLISH delivered with the binding of this connection or rejected as Topic Alias invalid.", "DESIGN.md §3 C13")
_ep("C14", "Closure for peer Maximum Packet Size L around every packet size of the alphabet (quick 6 values, thorough 2..14) x manual / auto-map / auto-replace, and own limit around inbound frame sizes: every RequestSendPacket (direct, automatic response, stored retransmission, alias-rewritten) must have size() and encoded length <= L; oversize stored packets dropped with id released; oversize inbound frames not delivered and answered with DISCONNECT 0x95.", "DESIGN.md §3 C14")
_ep("C15", "Closure over keep-alive 0/1 (second connection with a different value), Server Keep Alive absent/0/2, override none/0/3, PINGRESP timeout 0/5, roles client/server/any, both versions: sends, receives, expiries of armed timers, interval changes, DISCONNECT each way, close, reconnect, deferred PUBREL while disconnected; the timer model derived from the event stream checks cancel-only-when-armed, nothing armed after close / DISCONNECT, no arming by local calls while disconnected, client re-arm with the prioritised interval, server 1.5 x keep-alive re-arm and never for 0, PINGRESP timer arm/cancel and the effect of every expiry.", "DESIGN.md §3 C15")
_ep("C19", "The close-order rule (no RequestClose before a RequestSendPacket in one list; DISCONNECT / refusing CONNACK accompanied by a close request; keep-alive timeout on an established connection yields one) is evaluated on every event list of a closure run whose alphabet reaches every terminal path class (explicit DISCONNECT, refusing CONNACK, protocol errors, Receive Maximum exceeded, Topic Alias invalid, packet too large, CONNECT / CONNACK on an established connection, three timer expiries) for all roles and both versions; floors require each class to be observed.", "DESIGN.md §3 C19")
CHECKS["C05"] = ("EXPLORE", MC, "explicit-state reach set of the real connection x exhaustive one-step stimulus alphabet (reach x stimulus)",
   "Phase 1 enumerates breadth-first the states a correctly used connection reaches under contract-respecting local calls and valid peer traffic (roles client/server/any, v3.1.1 / v5.0 / undetermined, option-flag combinations; u16 and u32 identifiers) up to a state cap; phase 2 fires from every reached state every element of a stimulus alphabet (reference-encoded packets of every kind with boundary ids / limits, non-conformant frames, every single byte-level mutation and every length-consistent body truncation of every seed, 5-byte Remaining Length, raw 1- and 2-byte prefixes) followed by close + a fresh handshake. Oracle: no panic (overflow checks and debug assertions on), bounded event lists, every complete frame delivered / answered as a duplicate / reported, the object accepts a new connection.",
   "Reach set bounded by depth / state cap (reported); one stimulus per connection. Trusts catch_unwind + overflow-checks as the panic oracle and the reference codec's framing.",
   "DESIGN.md §3 C05")
CHECKS["C11"] = ("SEND-MATRIX", MC, "exhaustive enumeration of the finite send matrix on the real connection",
   "All cells role {Client, Server, Any-as-client, Any-as-server} x version {3.1.1, 5.0, undetermined} x status {disconnected fresh / after a connection, connecting, connected} x persistent x offline (each reached by real calls; undetermined x non-disconnected is unreachable) x all 29 packet kinds are executed on the real object (thorough: also with u32 identifiers): the MQTT rule table decides transmit / queue / refuse; a refusal must return exactly one error (+ the release of a freshly acquired id) and leave verif_state equal to the snapshot before the call. The compile-time clause is evaluated with an inherent-const-over-trait-const probe for 29 types x 3 roles and must equal the run-time role check and the MQTT table.",
   "Finite table, fully enumerated. Trusts the rule table written from the specification text in c11.rs / refcodec.rs and the verif_state hook.",
   "DESIGN.md §3 C11")
CHECKS["C17"] = ("RECV-MATRIX+BISIM", MC, "exhaustive receive matrix over reach sets plus lock-step product exploration (bisimulation) of undetermined vs fixed-version servers",
   "Matrix: from every reachable state of client / server / any connections (v3.1.1, v5.0, undetermined; closure of the session alphabet incl. CONNECT / CONNACK on an established connection) one minimal valid frame per packet-type nibble 0..15 (plus CONNECT with levels 0/3/6/255 for undetermined servers) is delivered; kinds the remote side of the role can never send, reserved types, and anything but CONNECT before a version is known must yield a protocol error, no delivery, nothing transmitted but a DISCONNECT and unchanged session state / version. Auto-detection: an undetermined server and a fixed-version server are stepped in lock-step through the closure of a session alphabet; from the adopting CONNECT on, canonical events and the full verif_state must be equal.",
   "Bounded by the alphabets in the evidence; a cold CONNACK on a disconnected client is not judged. Trusts the verif_state hook and the reference codec.",
   "DESIGN.md §3 C17")
CHECKS["C10"] = ("REUSE", MC, "explicit-state reach set of the real connection + differential comparison of every closed state against a freshly constructed object",
   "Phase 1 keeps every distinct state reachable under a union alphabet (negotiated limits, aliases, keep-alive values, pending SUBSCRIBE / UNSUBSCRIBE, armed timers, interval override, role Any switching sides, partial frames) followed by every close path. Phase 2: from every state in which the transport was reported closed, the reused object and a fresh object with the same options run the same new-session handshake (client: clean CONNECT / CONNACK sp=0 with two property menus, persistent CONNECT / session not present; server: clean CONNECT / CONNACK) - canonical events of every step must be equal, verif_state must be equal in full, and a fixed probe script (publish + ack, inbound QoS 2 + PUBREL, subscribe, ping, partial frame + rest, every timer expiry) must give equal traces.",
   "Reach set bounded by a state cap in the quick tier (reported). Trusts the completeness of the verif_state hook (exhaustive destructuring in the hook makes a new field a build error) and the trace net of the probe script.",
   "DESIGN.md §3 C10")
CHECKS["C16"] = ("RESTORE", MC, "explicit-state reach set of the real connection + differential export / restore check at every crash point",
   "Every state of the closure of the C06 / C07 session alphabet on a persistent session is a crash point: the stored packets and the handled-id set are exported, restored into a fresh object of the same role / version / options, and both the original (after notify_closed) and the restored object resume the session (thorough and v5: also with Receive Maximum 1). Required: equal canonical events during the resume, equal verif_state, equal events and successor states for a continuation alphabet (every acknowledgement kind for ids 1..3, QoS 2 duplicates, register of ids 1..3, a new publish, the vacancy); plus absolute clauses on the restored object (retransmission list = export in order, restored ids cannot be registered, the matching acknowledgement is accepted and releases, handled QoS 2 duplicates are answered with PUBREC and not notified). Malformed exports (duplicate ids, QoS 0 entry) are skipped without panic.",
   "Crash points are application step boundaries (DESIGN §2.4). A defect that affects original and restored object identically is invisible to the differential part (C06 / C12 decide those).",
   "DESIGN.md §3 C16")
CHECKS["C01"] = ("PAIR", MC, "explicit-state BFS of two real connection objects joined by byte queues (all interleavings, chunkings and loss points)",
   "A real client connection and a real server connection exchange exactly the bytes each requests to send. For every configuration (v3.1.1 / v5.0, automatic / manual / mixed responses, Receive Maximum each way, Topic Alias Maximum with manual / auto-map / auto-replace, Maximum Packet Size equal to the largest workload packet, keep-alive with timer expiries) the closure of all interleavings of workload operations from both sides (publish QoS 0/1/2 on two topics, with and without manual aliases, subscribe / unsubscribe / ping; quick 2, thorough 3-4 operations), whole-frame and partial deliveries in both directions (cut after 1 byte, after the fixed header, mid-body) and transport losses at every point (quick 1, thorough 2; everything in flight discarded, both sides told, persistent session resumed with the same limits) is explored. Oracle: no protocol error reported by either side, no panic, the delivery-only sub-graph is acyclic (no endless response loop), and in every quiescent state QoS 2 messages were notified exactly once, QoS 1 at least once (exactly once without loss), QoS 0 at most once with original topic and payload, both sides idle (no id in use, empty stores and pid sets, empty handled set, full Receive Maximum vacancy).",
   "Bounded by the workload size, one partial delivery and the loss budget; all explorations of the quick tier close. Trusts the verif_state hook for the idle clause.",
   "DESIGN.md §3 C01")
CHECKS["C02"] = ("ENUM", EX, "bounded-exhaustive enumeration of the abstract packet space through the real builders, serialisers and parsers",
   "Every abstract packet with at most 3 simultaneously deviating fields (4 for the small kinds) from the per-kind default - 29 kinds, both versions, u16 and u32 identifiers; deviation sets: flags each way, optional fields present / absent, string / binary / payload lengths on both sides of every length-encoding boundary and of every SSO threshold, ids 1 / 2 / 255 / 256 / max, every reason code, 1-3 entries, every allowed property with 2-4 values, every pair of allowed properties, all permitted at once - is built with the public builder; for every accepted packet size() == contiguous length == concatenated vectored length, the Remaining Length on the wire frames exactly the packet, parse(body) returns an equal packet and consumes the whole body; the v5 PUBLISH rewriting helpers keep the same agreement.",
   "Bounded by the deviation count and the value sets in genpk.rs (long lengths on at most two fields at a time); each builder setter used at most once. SSO feature builds run in the thorough wrapper.",
   "DESIGN.md §3 C02")
CHECKS["C03"] = ("ENUM", EX, "bounded-exhaustive differential enumeration against an independently written reference codec",
   "Same abstract packet space as C02. For every accepted packet the library's bytes must equal the reference encoder's bytes (refcodec.rs, written from the OASIS texts, no shared code or constants), the packet parsed from the reference encoding must return the field values through its public accessors, and so must the built packet. FixedHeader, PacketType, PropertyId and all eleven reason-code enums are compared with the specification tables for all 256 byte values.",
   "Trusts the reference codec (cross-checked: a disagreement is examined on the specification text). Non-standard builder features outside the specification's packet model (a reason code on v3.1.1 acknowledgements) are outside the abstract space.",
   "DESIGN.md §3 C03")
CHECKS["C04"] = ("ENUM", EX, "exhaustive short-string enumeration and exhaustive single-mutation enumeration over every parser entry point",
   "105 entry points (every packet parser of both versions with u16 and u32 identifiers, PUBLISH with all 16 flag nibbles, Property / Properties / SubEntry / MqttString / MqttBinary / VariableByteInteger decoders) receive every byte string of length <= 3 (thorough 4), every string of length 4..5 (thorough 6) over a 24-symbol alphabet, and every single mutation (thorough: pairs on short seeds) of every seed body; a connected client and server receive 1M short streams (totality only). Oracle: no panic, consumed <= len; on acceptance size() == serialisation, Remaining Length correct, re-parse equal, strings valid UTF-8, and builder agreement (the packet's own field values are accepted by the public builder; a packet no builder can reproduce must at least be a conformant encoding per the strict reference decoder).",
   "Inputs longer than the stated bounds are covered only through the mutation sets. Uniformly random strings are not used (sampling is outside this family).",
   "DESIGN.md §3 C04")
CHECKS["C18"] = ("ENUM", EX, "exhaustive enumeration of the finite property placement table on builder and parser path",
   "All cells 27 property kinds x 14 property-carrying locations x occurrences {1,2} x {typical value, each boundary the specification singles out} are evaluated on the builder path and on the parser path (reference-encoded packet); accept <=> the specification table allows the property there, the occurrence count is allowed (User Property everywhere, Subscription Identifier in PUBLISH) and the value is legal; builder and parser must agree in every cell.",
   "Finite table, fully enumerated; the table itself (refcodec.rs prop_allowed / prop_may_repeat / prop_value_legal) is trusted and was written from MQTT v5.0 Table 2-4.",
   "DESIGN.md §3 C18")
NOT_YET = {}

def main():
    props = [json.loads(l) for l in open(os.path.join(ROOT, "properties.jsonl"))]
    ids = [p["id"] for p in props]
    hooks_commits = []
    try:
        out = subprocess.run(["git", "-C", "/repo", "log", "--format=%H %s"], capture_output=True, text=True).stdout
        for l in out.splitlines():
            h, s = l.split(" ", 1)
            if s.startswith("verif-hooks"):
                hooks_commits.append(h)
    except Exception:
        pass
    checks = []
    for i in ids:
        if i not in CHECKS:
            continue
        eng, level, tech, text, note, ref = CHECKS[i]
        checks.append({
            "property_id": i,
            "quick_cmd": f"./check {i} quick",
            "thorough_cmd": f"./check {i} thorough",
            "evidence_file": f"/verif/evidence/{i}.json",
            "replay_cmd_template": "./check --replay {path}",
            "engine": eng,
            "level_claimed": {"category": level, "text": text, "design_ref": ref},
            "level_note": note,
            "technique": tech,
        })
    na = [{"property_id": i, "reason": NOT_YET.get(i, "check not built yet (work in progress; see DESIGN.md §3 for the planned engine)")} for i in ids if i not in CHECKS]
    engines = {}
    for i, c in CHECKS.items():
        engines.setdefault(c[0], []).append(i)
    m = {
        "version": 1,
        "setup_cmd": "cd /verif/mc && CARGO_NET_OFFLINE=true cargo build --release --offline --target-dir /verif/mc/target",
        "hooks": {
            "guard": "cargo feature verif-hooks (off by default)",
            "enable": "the harness crate /verif/mc depends on /repo by path with features = [\"verif-hooks\"]; no RUSTFLAGS needed",
            "baseline_off_cmd": "cd /repo && cargo test --workspace --no-fail-fast --offline",
            "source_commits": hooks_commits,
            "add_only": True,
        },
        "engines": [{"name": k, "path": "/verif/mc", "serves_properties": sorted(v), "kind_free_text": "explicit-state / bounded-exhaustive exploration of the real library code (Rust binary mqttmc)"} for k, v in sorted(engines.items())],
        "checks": checks,
        "not_applicable": na,
        "notes": "All checks: ./check <ID> quick|thorough rebuilds /verif/mc against /repo's working tree (path dependency) and runs one property. Exit 0 held, 1 VIOLATION, >=2 machinery failure. Known findings: /verif/known_findings.json.",
    }
    json.dump(m, open(os.path.join(ROOT, "MANIFEST.json"), "w"), indent=1)
    print("MANIFEST.json written:", len(checks), "checks,", len(na), "not claimed")

if __name__ == "__main__":
    main()
